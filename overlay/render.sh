#!/bin/bash
# Renders the build overlay (patched copies of three go1.26.8 std files) into overlay/gen.
set -euo pipefail
cd "$(dirname "$0")"
G=${VERIF_GOROOT:-/opt/veriftools/go1.26.8}
mkdir -p gen
cp "$G/src/runtime/rand.go" gen/runtime_rand.go
cp "$G/src/math/rand/rand.go" gen/mrand.go
cp "$G/src/math/rand/v2/rand.go" gen/mrand2.go
patch -s gen/runtime_rand.go runtime_rand.patch
patch -s gen/mrand.go mrand.patch
patch -s gen/mrand2.go mrand2.patch
cat > overlay.json <<JSON
{"Replace":{"$G/src/runtime/rand.go":"$PWD/gen/runtime_rand.go","$G/src/math/rand/rand.go":"$PWD/gen/mrand.go","$G/src/math/rand/v2/rand.go":"$PWD/gen/mrand2.go"}}
JSON
