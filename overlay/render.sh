#!/bin/bash
# Renders the build overlay into overlay/gen: patched copies of three go1.26.8 std files (fixed hash seed, sequenced
# math/rand) and of client-go's workqueue/parallelizer.go (workers report the piece they hold).
set -euo pipefail
cd "$(dirname "$0")"
G=${VERIF_GOROOT:-/opt/veriftools/go1.26.8}
mkdir -p gen
cp "$G/src/runtime/rand.go" gen/runtime_rand.go
cp "$G/src/math/rand/rand.go" gen/mrand.go
cp "$G/src/math/rand/v2/rand.go" gen/mrand2.go
patch -s gen/runtime_rand.go runtime_rand.patch
patch -s gen/mrand.go mrand.patch
patch -s gen/mrand2.go mrand2.patch
export GOFLAGS=-mod=mod GOPROXY=off GOSUMDB=off GOTOOLCHAIN=local
# client-go: files beneath GOMODCACHE may not be overlaid, so the module is copied next to the overlay (go.mod has
# "replace k8s.io/client-go => ./overlay/gen/client-go") and one file of the copy is patched
CG=$(awk '$1=="k8s.io/client-go"{print $2; exit}' ../go.mod)
CGSRC=$(go1.26.8 env GOMODCACHE)/k8s.io/client-go@$CG
if [ ! -f gen/client-go/.verif-$CG ]; then
  rm -rf gen/client-go
  mkdir -p gen/client-go
  cp -r "$CGSRC/." gen/client-go/
  chmod -R u+w gen/client-go
  patch -s gen/client-go/util/workqueue/parallelizer.go workqueue_parallelizer.patch
  touch gen/client-go/.verif-$CG
fi
cat > overlay.json <<JSON
{"Replace":{"$G/src/runtime/rand.go":"$PWD/gen/runtime_rand.go","$G/src/math/rand/rand.go":"$PWD/gen/mrand.go","$G/src/math/rand/v2/rand.go":"$PWD/gen/mrand2.go"}}
JSON
