package sim

// Environment actors: kubelet / cloud node agent. All actor code runs on the simulator's main
// goroutine (timer callbacks), so it may draw from the chooser.

import (
	"fmt"
	"time"

	corev1 "k8s.io/api/core/v1"
	"k8s.io/apimachinery/pkg/api/resource"
	metav1 "k8s.io/apimachinery/pkg/apis/meta/v1"
	"k8s.io/apimachinery/pkg/types"
	"sigs.k8s.io/controller-runtime/pkg/client"

	v1 "sigs.k8s.io/karpenter/pkg/apis/v1"
)

const actorKubelet = -1000

type KNode struct {
	Inst        *Instance
	Name        string
	Registered  bool
	NoRegister  bool
	NoTaint     bool
	StuckTaint  bool
	LateDevices bool
	Flap        bool
}

type Kubelet struct {
	e     *Env
	s     *Sim
	Nodes map[string]*KNode // by instance id
	queue []*Instance
	seq   int
	// knobs
	PNoRegister   float64
	PNoTaint      float64
	PStuckStartup float64
	PLateDevices  float64
	PFlap         float64
	RegDelayMax   time.Duration
	ReadyDelayMax time.Duration
	// pods
	PStuckPod float64
}

func NewKubelet(e *Env) *Kubelet {
	k := &Kubelet{e: e, s: e.S, Nodes: map[string]*KNode{}, RegDelayMax: 3 * time.Minute, ReadyDelayMax: 90 * time.Second}
	e.CP.OnCreate = append(e.CP.OnCreate, func(t *Task, nc *v1.NodeClaim, inst *Instance, err error, f FaultKind) {
		if inst != nil {
			k.queue = append(k.queue, inst)
		}
	})
	e.S.AddObserver(k.pump)
	return k
}

func (k *Kubelet) delay(kind string, max time.Duration) time.Duration {
	secs := int(max / time.Second)
	if secs < 1 {
		secs = 1
	}
	// bias to short delays, keep the tail
	switch k.s.Ch.Pick(kind+".mode", 4) {
	case 0:
		return time.Duration(1+k.s.Ch.Pick(kind, 10)) * time.Second
	case 1:
		return 0
	default:
		return time.Duration(1+k.s.Ch.Pick(kind, secs)) * time.Second
	}
}

// pump runs before every step on the main goroutine: plan the life of new instances.
func (k *Kubelet) pump() {
	for len(k.queue) > 0 {
		inst := k.queue[0]
		k.queue = k.queue[1:]
		ch := k.s.Ch
		kn := &KNode{Inst: inst}
		k.Nodes[inst.ID] = kn
		if k.s.FaultsOn {
			kn.NoRegister = ch.Chance("kubelet.noregister", k.PNoRegister)
			kn.NoTaint = ch.Chance("kubelet.notaint", k.PNoTaint)
			kn.StuckTaint = ch.Chance("kubelet.stuckstartup", k.PStuckStartup)
			kn.LateDevices = ch.Chance("kubelet.latedevices", k.PLateDevices)
			kn.Flap = ch.Chance("kubelet.flap", k.PFlap)
		}
		if kn.NoRegister {
			k.s.Stat("fault.node.noregister")
			continue
		}
		d := k.delay("kubelet.regdelay", k.RegDelayMax)
		k.s.AddTimer(actorKubelet, d, "kubelet register "+inst.ID, false, func() { k.register(kn) })
	}
}

func (k *Kubelet) register(kn *KNode) {
	inst := kn.Inst
	k.e.CP.settle(inst)
	if inst.Gone || inst.Terminating {
		return
	}
	st := k.s.store
	k.seq++
	kn.Name = fmt.Sprintf("node-%s", inst.ID[len("sim://i-"):])
	labels := map[string]string{corev1.LabelHostname: kn.Name}
	for key, v := range inst.Labels {
		labels[key] = v
	}
	node := &corev1.Node{ObjectMeta: metav1.ObjectMeta{Name: kn.Name, Labels: labels}}
	node.Spec.ProviderID = inst.ID
	spec := inst.Snapshot.Spec
	if o := st.Get(gvkNodeClaim, types.NamespacedName{Name: inst.NodeClaim}); o != nil && o.GetUID() == inst.UID {
		spec = o.(*v1.NodeClaim).Spec
	}
	node.Spec.Taints = append(node.Spec.Taints, spec.Taints...)
	// the kubelet registers the taints it was started with; a flag like key=true:NoSchedule for a declared key:NoSchedule
	// is the same taint by key and effect
	for _, t := range spec.StartupTaints {
		if t.Value == "" && k.s.Ch.Pick("kubelet.taintvalue", 3) == 2 {
			t.Value = "true"
		}
		node.Spec.Taints = append(node.Spec.Taints, t)
	}
	if !kn.NoTaint {
		node.Spec.Taints = append(node.Spec.Taints, v1.UnregisteredNoExecuteTaint)
	} else {
		k.s.Stat("fault.node.notaint")
	}
	node.Spec.Taints = append(node.Spec.Taints, corev1.Taint{Key: corev1.TaintNodeNotReady, Effect: corev1.TaintEffectNoSchedule})
	node.Status.Capacity = inst.Capacity.DeepCopy()
	node.Status.Allocatable = inst.Allocatable.DeepCopy()
	if kn.LateDevices {
		// until the device plugin registers the resource is either absent or reported with zero allocatable
		zero := k.s.Ch.Pick("kubelet.latezero", 2) == 1
		for r := range node.Status.Allocatable {
			if isExtended(r) {
				if zero {
					node.Status.Allocatable[r] = resource.MustParse("0")
				} else {
					delete(node.Status.Allocatable, r)
					delete(node.Status.Capacity, r)
				}
			}
		}
	}
	node.Status.Conditions = []corev1.NodeCondition{{Type: corev1.NodeReady, Status: corev1.ConditionFalse, Reason: "KubeletNotReady", LastTransitionTime: st.now()}}
	if _, err := st.Create(node, nil); err != nil {
		return
	}
	kn.Registered = true
	k.s.Logf("env  kubelet registered %s for %s", kn.Name, inst.ID)
	k.s.Stat("env.node.register")
	key := client.ObjectKey{Name: kn.Name}
	// readiness
	k.s.AddTimer(actorKubelet, k.delay("kubelet.readydelay", k.ReadyDelayMax), "kubelet ready "+kn.Name, false, func() {
		st.Mutate(gvkNode, key, func(o client.Object) {
			n := o.(*corev1.Node)
			setNodeReady(n, true, st.now())
		})
		if kn.Flap {
			k.s.Stat("fault.node.flapready")
			k.s.AddTimer(actorKubelet, k.delay("kubelet.flapdelay", 5*time.Minute), "kubelet notready "+kn.Name, false, func() {
				// a kubelet that stops heart-beating is reported Ready=Unknown by the node-lifecycle controller; one that
				// reports trouble itself says Ready=False
				unknown := k.s.Ch.Pick("kubelet.flapunknown", 2) == 1
				st.Mutate(gvkNode, key, func(o client.Object) {
					n := o.(*corev1.Node)
					setNodeReady(n, false, st.now())
					if unknown {
						for i := range n.Status.Conditions {
							if n.Status.Conditions[i].Type == corev1.NodeReady {
								n.Status.Conditions[i].Status = corev1.ConditionUnknown
							}
						}
					}
				})
				k.s.AddTimer(actorKubelet, k.delay("kubelet.flapback", 5*time.Minute), "kubelet ready-again "+kn.Name, false, func() {
					st.Mutate(gvkNode, key, func(o client.Object) { setNodeReady(o.(*corev1.Node), true, st.now()) })
				})
			})
		}
	})
	// startup taints are removed by whatever daemon owns them
	if len(spec.StartupTaints) > 0 {
		if kn.StuckTaint {
			k.s.Stat("fault.node.stuckstartup")
		} else {
			k.s.AddTimer(actorKubelet, k.delay("kubelet.startupdelay", 2*time.Minute), "daemon untaint "+kn.Name, false, func() {
				st.Mutate(gvkNode, key, func(o client.Object) {
					n := o.(*corev1.Node)
					var keep []corev1.Taint
					for _, t := range n.Spec.Taints {
						drop := false
						for _, s := range spec.StartupTaints {
							if s.MatchTaint(&t) {
								drop = true
							}
						}
						if !drop {
							keep = append(keep, t)
						}
					}
					n.Spec.Taints = keep
				})
			})
		}
	}
	if kn.LateDevices {
		k.s.Stat("fault.node.latedevices")
		k.s.AddTimer(actorKubelet, k.delay("kubelet.devdelay", 3*time.Minute), "deviceplugin register "+kn.Name, false, func() {
			st.Mutate(gvkNode, key, func(o client.Object) {
				n := o.(*corev1.Node)
				for r, q := range inst.Allocatable {
					if isExtended(r) {
						n.Status.Allocatable[r] = q.DeepCopy()
						n.Status.Capacity[r] = inst.Capacity[r].DeepCopy()
					}
				}
			})
		})
	}
}

func isExtended(r corev1.ResourceName) bool {
	switch r {
	case corev1.ResourceCPU, corev1.ResourceMemory, corev1.ResourcePods, corev1.ResourceEphemeralStorage:
		return false
	}
	return true
}

func setNodeReady(n *corev1.Node, ready bool, now metav1.Time) {
	st := corev1.ConditionFalse
	if ready {
		st = corev1.ConditionTrue
	}
	found := false
	for i := range n.Status.Conditions {
		if n.Status.Conditions[i].Type == corev1.NodeReady {
			if n.Status.Conditions[i].Status != st {
				n.Status.Conditions[i].Status = st
				n.Status.Conditions[i].LastTransitionTime = now
			}
			found = true
		}
	}
	if !found {
		n.Status.Conditions = append(n.Status.Conditions, corev1.NodeCondition{Type: corev1.NodeReady, Status: st, LastTransitionTime: now})
	}
	var keep []corev1.Taint
	for _, t := range n.Spec.Taints {
		if t.Key == corev1.TaintNodeNotReady {
			continue
		}
		keep = append(keep, t)
	}
	if !ready {
		keep = append(keep, corev1.Taint{Key: corev1.TaintNodeNotReady, Effect: corev1.TaintEffectNoSchedule})
	}
	n.Spec.Taints = keep
}

// WatchPods makes the kubelet actor finish terminating pods at their deletionTimestamp (unless
// stuck) and lets the attach-detach controller remove VolumeAttachments some time after the pod
// is gone.
func (k *Kubelet) WatchPods() {
	st := k.s.store
	stuck := map[types.UID]bool{}
	decided := map[types.UID]bool{}
	var queue []func()
	st.OnWrite = append(st.OnWrite, func(ev WatchEvent, old client.Object, by *Task) {
		if ev.GVK != gvkPod {
			return
		}
		pod := ev.Obj.(*corev1.Pod)
		if ev.Type == EvDeleted {
			// detach volumes later
			for _, v := range pod.Spec.Volumes {
				if v.PersistentVolumeClaim == nil {
					continue
				}
				pvcName := v.PersistentVolumeClaim.ClaimName
				queue = append(queue, func() {
					pvc := st.Get(gvkPVC, types.NamespacedName{Namespace: pod.Namespace, Name: pvcName})
					if pvc == nil {
						return
					}
					va := types.NamespacedName{Name: "va-" + pvc.(*corev1.PersistentVolumeClaim).Spec.VolumeName}
					if k.s.FaultsOn && k.s.Ch.Chance("ad.stuck", 0.1) {
						k.s.Stat("fault.volume.stuckattached")
						return
					}
					k.s.AddTimer(actorKubelet, k.delay("ad.delay", 3*time.Minute), "detach "+va.Name, false, func() { st.Remove(gvkVA, va, nil) })
				})
			}
			return
		}
		if pod.DeletionTimestamp == nil || pod.Spec.NodeName == "" {
			return
		}
		if old != nil {
			if op := old.(*corev1.Pod); op.DeletionTimestamp != nil && op.DeletionTimestamp.Equal(pod.DeletionTimestamp) {
				return
			}
		}
		uid, key, at := pod.UID, keyOf(pod), pod.DeletionTimestamp.Time
		queue = append(queue, func() {
			if !decided[uid] {
				decided[uid] = true
				if k.s.FaultsOn && k.s.Ch.Chance("kubelet.stuckpod", k.PStuckPod) {
					stuck[uid] = true
					k.s.Stat("fault.pod.stuckterminating")
				}
			}
			if stuck[uid] {
				return
			}
			d := at.Sub(k.s.Now())
			if d < 0 {
				d = 0
			}
			k.s.AddTimer(actorKubelet, d, "kubelet kill "+key.Name, false, func() {
				cur := st.Get(gvkPod, key)
				if cur == nil || cur.GetUID() != uid {
					return
				}
				if dt := cur.GetDeletionTimestamp(); dt != nil && dt.Time.After(k.s.Now()) {
					return // a later (shorter) deadline has its own timer
				}
				st.Remove(gvkPod, key, nil)
				k.s.Stat("env.pod.killed")
			})
		})
	})
	k.s.AddObserver(func() {
		q := queue
		queue = nil
		for _, f := range q {
			f()
		}
	})
}

// StartCCM models the cloud controller manager's node lifecycle controller: a Node whose instance
// no longer exists at the provider is deleted (the termination finalizer, if present, still applies).
// StartProviderGC models the cloud provider's own garbage collector (the providers built on Karpenter core run one):
// an instance that no NodeClaim claims - neither by provider id nor by the name it was launched for - for several
// minutes is terminated. Such instances exist when the answer of a launch was lost for good.
func (k *Kubelet) StartProviderGC(period, minAge time.Duration) {
	var tick func()
	tick = func() {
		st := k.s.store
		claimed := map[string]bool{}
		for _, o := range st.List(gvkNodeClaim) {
			nc := o.(*v1.NodeClaim)
			claimed[nc.Status.ProviderID] = true
			claimed["name:"+nc.Name] = true
		}
		for _, inst := range k.e.CP.LiveInstances() {
			if inst.Terminating || claimed[inst.ID] || claimed["name:"+inst.NodeClaim] || k.s.Now().Sub(inst.CreatedAt) < minAge {
				continue
			}
			inst.Terminating, inst.TerminateAt = true, k.s.Now().Add(10*time.Second)
			k.s.Stat("env.providergc.instance-terminated")
			k.s.Logf("env  provider GC terminates unclaimed instance %s", inst.ID)
		}
		k.s.AddTimer(actorKubelet, period, "provider gc tick", false, tick)
	}
	k.s.AddTimer(actorKubelet, period, "provider gc tick", false, tick)
}

func (k *Kubelet) StartCCM(period time.Duration) {
	var tick func()
	tick = func() {
		st := k.s.store
		for _, o := range st.List(gvkNode) {
			n := o.(*corev1.Node)
			if n.DeletionTimestamp != nil {
				continue
			}
			inst := k.e.CP.Instances[n.Spec.ProviderID]
			if inst == nil {
				continue
			}
			k.e.CP.settle(inst)
			if inst.Gone && k.s.Now().Sub(inst.GoneAt) > period {
				_ = st.Delete(n, DeleteOpts{}, nil)
				k.s.Stat("env.ccm.node-deleted")
			}
		}
		k.s.AddTimer(actorKubelet, period, "ccm tick", false, tick)
	}
	k.s.AddTimer(actorKubelet, period, "ccm tick", false, tick)
}
