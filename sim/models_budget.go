package sim

// Budget model (DESIGN 5.1): own 5-field cron matcher, minute scan over (t-duration, t], percent
// rounding up, reasons, minimum over applicable budgets, malformed => 0.

import (
	"fmt"
	"strconv"
	"strings"
	"time"

	v1 "sigs.k8s.io/karpenter/pkg/apis/v1"
)

type cronField struct {
	any  bool
	vals map[int]bool
}

func parseCronField(f string, lo, hi int) (cronField, error) {
	if f == "*" {
		return cronField{any: true}, nil
	}
	cf := cronField{vals: map[int]bool{}}
	for _, part := range strings.Split(f, ",") {
		step := 1
		rng := part
		if i := strings.Index(part, "/"); i >= 0 {
			s, err := strconv.Atoi(part[i+1:])
			if err != nil || s <= 0 {
				return cf, fmt.Errorf("bad step %q", part)
			}
			step = s
			rng = part[:i]
		}
		a, b := lo, hi
		if rng != "*" {
			if i := strings.Index(rng, "-"); i >= 0 {
				x, err1 := strconv.Atoi(rng[:i])
				y, err2 := strconv.Atoi(rng[i+1:])
				if err1 != nil || err2 != nil {
					return cf, fmt.Errorf("bad range %q", part)
				}
				a, b = x, y
			} else {
				x, err := strconv.Atoi(rng)
				if err != nil {
					return cf, fmt.Errorf("bad value %q", part)
				}
				a, b = x, x
				if strings.Contains(part, "/") {
					b = hi
				}
			}
		}
		if a < lo || b > hi || a > b {
			return cf, fmt.Errorf("out of range %q", part)
		}
		for v := a; v <= b; v += step {
			cf.vals[v] = true
		}
	}
	return cf, nil
}

type cronSpec struct{ min, hour, dom, mon, dow cronField }

func parseCron(s string) (*cronSpec, error) {
	switch s {
	case "@hourly":
		s = "0 * * * *"
	case "@daily", "@midnight":
		s = "0 0 * * *"
	case "@weekly":
		s = "0 0 * * 0"
	case "@monthly":
		s = "0 0 1 * *"
	case "@yearly", "@annually":
		s = "0 0 1 1 *"
	}
	f := strings.Fields(s)
	if len(f) != 5 {
		return nil, fmt.Errorf("need 5 fields")
	}
	var c cronSpec
	var err error
	if c.min, err = parseCronField(f[0], 0, 59); err != nil {
		return nil, err
	}
	if c.hour, err = parseCronField(f[1], 0, 23); err != nil {
		return nil, err
	}
	if c.dom, err = parseCronField(f[2], 1, 31); err != nil {
		return nil, err
	}
	if c.mon, err = parseCronField(f[3], 1, 12); err != nil {
		return nil, err
	}
	if c.dow, err = parseCronField(f[4], 0, 6); err != nil {
		return nil, err
	}
	return &c, nil
}

func (f cronField) has(v int) bool { return f.any || f.vals[v] }

func (c *cronSpec) hits(t time.Time) bool {
	if !c.min.has(t.Minute()) || !c.hour.has(t.Hour()) || !c.mon.has(int(t.Month())) {
		return false
	}
	domOK, dowOK := c.dom.has(t.Day()), c.dow.has(int(t.Weekday()))
	if !c.dom.any && !c.dow.any {
		return domOK || dowOK
	}
	return domOK && dowOK
}

// budgetActive: active during [hit, hit+duration) after each hit of the schedule.
func budgetActive(b v1.Budget, t time.Time) (bool, error) {
	if b.Schedule == nil && b.Duration == nil {
		return true, nil
	}
	if b.Schedule == nil || b.Duration == nil {
		return false, fmt.Errorf("schedule and duration must be set together")
	}
	c, err := parseCron(*b.Schedule)
	if err != nil {
		return false, err
	}
	t = t.UTC()
	d := b.Duration.Duration
	// hits happen on whole minutes: scan the minutes h with t-d < h <= t
	for h := t.Truncate(time.Minute); h.After(t.Add(-d)); h = h.Add(-time.Minute) {
		if c.hits(h) {
			return true, nil
		}
	}
	return false, nil
}

const unbounded = 1 << 30

// allowedDisruptions: the most restrictive active budget that applies to the reason; malformed => 0.
func allowedDisruptions(np *v1.NodePool, reason v1.DisruptionReason, n int, t time.Time) int {
	allowed := unbounded
	for _, b := range np.Spec.Disruption.Budgets {
		val := unbounded
		active, err := budgetActive(b, t)
		if err != nil {
			return 0
		}
		if active {
			if strings.HasSuffix(b.Nodes, "%") {
				p, err := strconv.Atoi(strings.TrimSuffix(b.Nodes, "%"))
				if err != nil || p < 0 || p > 100 {
					return 0
				}
				val = (p*n + 99) / 100
			} else {
				v, err := strconv.Atoi(b.Nodes)
				if err != nil || v < 0 {
					return 0
				}
				val = v
			}
		}
		applies := len(b.Reasons) == 0
		for _, r := range b.Reasons {
			if r == reason {
				applies = true
			}
		}
		if applies && val < allowed {
			allowed = val
		}
	}
	return allowed
}
