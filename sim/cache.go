package sim

// The informer cache: a second object map that trails the server. One FIFO watch stream per
// kind; delivery of the next event of a kind is a scheduling decision of the simulator.

import (
	"sort"

	"k8s.io/apimachinery/pkg/runtime/schema"
	"k8s.io/apimachinery/pkg/types"
	"sigs.k8s.io/controller-runtime/pkg/client"
)

type Cache struct {
	sim     *Sim
	objs    objMap
	pending map[schema.GroupVersionKind][]WatchEvent
}

func NewCache(s *Sim) *Cache {
	return &Cache{sim: s, objs: objMap{}, pending: map[schema.GroupVersionKind][]WatchEvent{}}
}

func (c *Cache) enqueue(ev WatchEvent) {
	c.pending[ev.GVK] = append(c.pending[ev.GVK], ev)
}

// PendingKinds returns the kinds that have undelivered events, in a canonical order.
func (c *Cache) PendingKinds() []schema.GroupVersionKind {
	var out []schema.GroupVersionKind
	for k, q := range c.pending {
		if len(q) > 0 {
			out = append(out, k)
		}
	}
	sort.Slice(out, func(i, j int) bool { return out[i].String() < out[j].String() })
	return out
}

func (c *Cache) PendingCount() int {
	n := 0
	for _, q := range c.pending {
		n += len(q)
	}
	return n
}

func (c *Cache) Oldest(gvk schema.GroupVersionKind) *WatchEvent {
	q := c.pending[gvk]
	if len(q) == 0 {
		return nil
	}
	return &q[0]
}

// Deliver applies the next event of the kind to the cache and returns it with the previous cached
// version.
func (c *Cache) Deliver(gvk schema.GroupVersionKind) (WatchEvent, client.Object) {
	q := c.pending[gvk]
	ev := q[0]
	c.pending[gvk] = q[1:]
	old := c.objs.get(gvk, ev.Key)
	if ev.Type == EvDeleted {
		c.objs.del(gvk, ev.Key)
	} else {
		c.objs.put(gvk, ev.Key, ev.Obj)
	}
	return ev, old
}

// Resync replaces the cache with server truth and drops pending events (process restart).
func (c *Cache) Resync(st *Store) {
	c.objs = objMap{}
	for gvk, m := range st.objs {
		for k, o := range m {
			c.objs.put(gvk, k, o)
		}
	}
	c.pending = map[schema.GroupVersionKind][]WatchEvent{}
}

func (c *Cache) Get(gvk schema.GroupVersionKind, key types.NamespacedName) client.Object {
	return c.objs.get(gvk, key)
}

func (c *Cache) List(gvk schema.GroupVersionKind) []client.Object {
	keys := c.objs.sortedKeys(gvk)
	out := make([]client.Object, 0, len(keys))
	for _, k := range keys {
		out = append(out, c.objs[gvk][k])
	}
	return out
}

// CaughtUp reports whether the cache equals the server for the given kinds (no pending events).
func (c *Cache) CaughtUp(kinds ...string) bool {
	for k, q := range c.pending {
		if len(q) == 0 {
			continue
		}
		if len(kinds) == 0 {
			return false
		}
		for _, want := range kinds {
			if k.Kind == want {
				return false
			}
		}
	}
	return true
}
