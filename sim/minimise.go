package sim

// Trace minimisation (delta debugging on the choice trace) and the single-fault sweep.

import (
	"encoding/json"
	"os"
	"testing"
)

func signatureOf(rep *RunReport, prop string) string {
	for _, v := range rep.Viol {
		if prop == "" || v.Property == prop {
			return v.Signature()
		}
	}
	return ""
}

func hasSignature(rep *RunReport, sig string) bool {
	for _, v := range rep.Viol {
		if v.Signature() == sig {
			return true
		}
	}
	return false
}

func nonZero(tr []int) int {
	n := 0
	for _, v := range tr {
		if v != 0 {
			n++
		}
	}
	return n
}

// Minimise shrinks the trace while the same violation signature persists.
func Minimise(t *testing.T, cfg RunConfig, trace []int, sig string, budgetMs float64) ([]int, *RunReport, int) {
	t0 := wallNow()
	attempts := 0
	try := func(tr []int) *RunReport {
		attempts++
		rep := RunOne(t, cfg, tr, false)
		if rep.Fatal == "" && hasSignature(rep, sig) {
			return rep
		}
		return nil
	}
	best := append([]int(nil), trace...)
	var bestRep *RunReport
	over := func() bool { return wallNow()-t0 > budgetMs }
	// 1. shortest prefix (rest defaults to 0)
	lo, hi := 0, len(best)
	for lo < hi && !over() {
		mid := (lo + hi) / 2
		if rep := try(best[:mid]); rep != nil {
			hi = mid
			bestRep = rep
		} else {
			lo = mid + 1
		}
	}
	if hi < len(best) {
		if rep := try(best[:hi]); rep != nil {
			best = append([]int(nil), best[:hi]...)
			bestRep = rep
		}
	}
	// 2. zero out chunks of non-default choices
	for chunk := len(best) / 2; chunk >= 1 && !over(); chunk /= 2 {
		for start := 0; start < len(best) && !over(); start += chunk {
			end := min(start+chunk, len(best))
			any := false
			for _, v := range best[start:end] {
				if v != 0 {
					any = true
				}
			}
			if !any {
				continue
			}
			cand := append([]int(nil), best...)
			for i := start; i < end; i++ {
				cand[i] = 0
			}
			if rep := try(cand); rep != nil {
				best = cand
				bestRep = rep
			}
		}
	}
	// 3. delete chunks (shifts later choices; accepted only if the signature persists)
	for chunk := len(best) / 4; chunk >= 1 && !over(); chunk /= 2 {
		for start := 0; start+chunk <= len(best) && !over(); {
			cand := append(append([]int(nil), best[:start]...), best[start+chunk:]...)
			if rep := try(cand); rep != nil {
				best = cand
				bestRep = rep
			} else {
				start += chunk
			}
		}
	}
	// 4. lower remaining values
	for i := 0; i < len(best) && !over(); i++ {
		if best[i] <= 1 {
			continue
		}
		for _, v := range []int{1, best[i] / 2} {
			cand := append([]int(nil), best...)
			cand[i] = v
			if rep := try(cand); rep != nil {
				best = cand
				bestRep = rep
				break
			}
		}
	}
	// strip trailing zeros
	for len(best) > 0 && best[len(best)-1] == 0 {
		best = best[:len(best)-1]
	}
	if bestRep == nil {
		bestRep = try(best)
	}
	return best, bestRep, attempts
}

func runMinimise(t *testing.T, emit func(interface{})) {
	var rf ReplayFile
	b, err := os.ReadFile(os.Getenv("VERIF_REPLAY"))
	if err != nil {
		t.Fatal(err)
	}
	if err := json.Unmarshal(b, &rf); err != nil {
		t.Fatal(err)
	}
	cfg := rf.Cfg
	orig := RunOne(t, cfg, rf.Trace, false)
	sig := rf.Signature
	if !hasSignature(orig, sig) {
		emit(map[string]interface{}{"error": "original trace does not reproduce", "got": signatureOf(orig, cfg.Property), "want": sig})
		return
	}
	rf.Original.Steps, rf.Original.Choices, rf.Original.NonZero = orig.Steps, len(rf.Trace), nonZero(rf.Trace)
	best, rep, attempts := Minimise(t, cfg, rf.Trace, sig, float64(envInt("VERIF_MIN_BUDGET_S", 60))*1000)
	if rep == nil {
		emit(map[string]interface{}{"error": "minimised trace does not reproduce"})
		return
	}
	rf.Trace = best
	rf.Minimised.Steps, rf.Minimised.Choices, rf.Minimised.NonZero = rep.Steps, len(best), nonZero(best)
	rf.LogHash = rep.LogHash
	for _, v := range rep.Viol {
		if v.Signature() == sig {
			rf.Message = v.Msg
			break
		}
	}
	c := cfg
	c.KeepLog = true
	full := RunOne(t, c, best, false)
	rf.Log = full.Log
	if len(rf.Log) > 600 {
		rf.Log = rf.Log[len(rf.Log)-600:]
	}
	ob, _ := json.MarshalIndent(rf, "", " ")
	if err := os.WriteFile(os.Getenv("VERIF_OUT"), ob, 0o644); err != nil {
		t.Fatal(err)
	}
	emit(map[string]interface{}{"minimised": true, "attempts": attempts, "orig_choices": rf.Original.Choices, "min_choices": rf.Minimised.Choices,
		"orig_nonzero": rf.Original.NonZero, "min_nonzero": rf.Minimised.NonZero, "orig_steps": rf.Original.Steps, "min_steps": rf.Minimised.Steps, "log_hash": rf.LogHash})
}

// runSweep: for each baseline seed, run fault-free, count the fault-eligible calls, then re-run
// with exactly one fault at call k for every k and every mode.
func runSweep(t *testing.T, emit func(interface{})) {
	cfg := RunConfig{Profile: os.Getenv("VERIF_PROFILE"), Property: os.Getenv("VERIF_PROPERTY"), Variant: os.Getenv("VERIF_VARIANT"), Sweep: os.Getenv("VERIF_SWEEP_CTRLS")}
	from, n := envInt("VERIF_FROM", 1), envInt("VERIF_N", 1)
	shard, shards := envInt("VERIF_SHARD", 0), envInt("VERIF_SHARDS", 1)
	maxCalls := envInt("VERIF_SWEEP_MAXCALLS", 400)
	deadline := wallNow() + float64(envInt("VERIF_BUDGET_S", 3600))*1000
	for i := 0; i < n; i++ {
		c := cfg
		c.Seed = uint64(from + i)
		c.NoFaults = true
		base := RunOne(t, c, nil, false)
		if shard == 0 {
			emit(base)
		}
		if base.Fatal != "" {
			return
		}
		calls := min(base.Calls, maxCalls)
		j := 0
		for k := 1; k <= calls; k++ {
			for _, mode := range []FaultKind{FErrBefore, FErrAfter, FCrashAfter} {
				j++
				if j%shards != shard {
					continue
				}
				if wallNow() > deadline {
					return
				}
				cc := c
				cc.Forced = &ForcedFault{Index: k, Kind: mode}
				rep := RunOne(t, cc, nil, false)
				emit(rep)
				if rep.Fatal != "" {
					return
				}
			}
		}
	}
}
