package sim

// Wiring of the remaining real controllers; each Add* mirrors the controller's Register().

import (
	"context"
	"time"

	corev1 "k8s.io/api/core/v1"
	"k8s.io/apimachinery/pkg/types"
	"k8s.io/client-go/util/workqueue"
	"sigs.k8s.io/controller-runtime/pkg/client"
	"sigs.k8s.io/controller-runtime/pkg/event"
	"sigs.k8s.io/controller-runtime/pkg/handler"
	"sigs.k8s.io/controller-runtime/pkg/predicate"
	"sigs.k8s.io/controller-runtime/pkg/reconcile"

	v1 "sigs.k8s.io/karpenter/pkg/apis/v1"
	"sigs.k8s.io/karpenter/pkg/controllers/disruption"
	"sigs.k8s.io/karpenter/pkg/controllers/dynamicresources/deviceallocation"
	"sigs.k8s.io/karpenter/pkg/controllers/node/health"
	"sigs.k8s.io/karpenter/pkg/controllers/node/termination"
	"sigs.k8s.io/karpenter/pkg/controllers/node/termination/terminator"
	nodeclaimdisruption "sigs.k8s.io/karpenter/pkg/controllers/nodeclaim/disruption"
	"sigs.k8s.io/karpenter/pkg/controllers/nodeclaim/expiration"
	"sigs.k8s.io/karpenter/pkg/controllers/nodeclaim/garbagecollection"
	"sigs.k8s.io/karpenter/pkg/controllers/nodeclaim/lifecycle"
	"sigs.k8s.io/karpenter/pkg/controllers/nodeclaim/podevents"
	nodepoolcounter "sigs.k8s.io/karpenter/pkg/controllers/nodepool/counter"
	nodepoolhash "sigs.k8s.io/karpenter/pkg/controllers/nodepool/hash"
	nodepoolreadiness "sigs.k8s.io/karpenter/pkg/controllers/nodepool/readiness"
	"sigs.k8s.io/karpenter/pkg/controllers/nodepool/registrationhealth"
	nodepoolvalidation "sigs.k8s.io/karpenter/pkg/controllers/nodepool/validation"
	"sigs.k8s.io/karpenter/pkg/controllers/provisioning"
	staticdeprovisioning "sigs.k8s.io/karpenter/pkg/controllers/static/deprovisioning"
	staticprovisioning "sigs.k8s.io/karpenter/pkg/controllers/static/provisioning"
	"sigs.k8s.io/karpenter/pkg/state/nodepoolhealth"
	"sigs.k8s.io/karpenter/pkg/state/virtualpods"
	"sigs.k8s.io/karpenter/pkg/test/v1alpha1"
	nodeutils "sigs.k8s.io/karpenter/pkg/utils/node"
	nodeclaimutils "sigs.k8s.io/karpenter/pkg/utils/nodeclaim"
	nodepoolutils "sigs.k8s.io/karpenter/pkg/utils/nodepool"
)

func (e *Env) ncManaged() predicate.Predicate   { return nodeclaimutils.IsManagedPredicateFuncs(e.CP) }
func (e *Env) nodeManaged() predicate.Predicate { return nodeutils.IsManagedPredicateFuncs(e.CP) }
func (e *Env) npManaged() predicate.Predicate   { return nodepoolutils.IsManagedPredicateFuncs(e.CP) }

// AddLifecycle registers nodeclaim.lifecycle and the NodePool registration-health controller.
func (e *Env) AddLifecycle() {
	m := e.S.Mgr
	np := nodepoolhealth.NewState()
	e.Parts["npState"] = np
	lc := lifecycle.NewController(e.S.Clock, e.C, e.CP, e.Rec, np, nil)
	KeepAlive(lc)
	e.Parts["lifecycle"] = lc
	m.Add(&Ctrl{Name: "nodeclaim.lifecycle", UnderTest: true, BaseBackoff: time.Second, MaxBackoff: time.Minute, MaxConc: 50,
		Reconcile: objRec[*v1.NodeClaim](e.C, lc),
		Watches: []Watch{{Obj: &v1.NodeClaim{}, Preds: []predicate.Predicate{e.ncManaged()}},
			{Obj: &corev1.Node{}, Handler: nodeclaimutils.NodeEventHandler(e.C, e.CP)}}})
	rh := registrationhealth.NewController(e.S.Clock, e.C, e.CP, np)
	m.Add(&Ctrl{Name: "nodepool.registrationhealth", UnderTest: true, Reconcile: objRec[*v1.NodePool](e.C, rh),
		Watches: []Watch{{Obj: &v1.NodePool{}, Preds: []predicate.Predicate{e.npManaged()}},
			{Obj: &v1alpha1.TestNodeClass{}, Handler: nodepoolutils.NodeClassEventHandler(e.C)}}})
}

// AddNodePoolControllers registers hash, readiness, validation and counter.
func (e *Env) AddNodePoolControllers() {
	m := e.S.Mgr
	m.Add(&Ctrl{Name: "nodepool.hash", Reconcile: objRec[*v1.NodePool](e.C, nodepoolhash.NewController(e.C, e.CP)),
		Watches: []Watch{{Obj: &v1.NodePool{}, Preds: []predicate.Predicate{e.npManaged()}}}})
	m.Add(&Ctrl{Name: "nodepool.readiness", Reconcile: objRec[*v1.NodePool](e.C, nodepoolreadiness.NewController(e.S.Clock, e.C, e.CP)),
		Watches: []Watch{{Obj: &v1.NodePool{}, Preds: []predicate.Predicate{e.npManaged()}},
			{Obj: &v1alpha1.TestNodeClass{}, Handler: nodepoolutils.NodeClassEventHandler(e.C)}}})
	m.Add(&Ctrl{Name: "nodepool.validation", Reconcile: objRec[*v1.NodePool](e.C, nodepoolvalidation.NewController(e.S.Clock, e.C, e.CP)),
		Watches: []Watch{{Obj: &v1.NodePool{}, Preds: []predicate.Predicate{e.npManaged()}}}})
	if e.Cluster != nil {
		m.Add(&Ctrl{Name: "nodepool.counter", Reconcile: objRec[*v1.NodePool](e.C, nodepoolcounter.NewController(e.C, e.CP, e.Cluster)),
			Watches: []Watch{{Obj: &v1.NodePool{}, Preds: []predicate.Predicate{e.npManaged(), createOnly}}}})
	}
}

// AddNodeClaimDisruption registers the Drifted / Consolidatable condition controller and podevents.
func (e *Env) AddNodeClaimDisruption() {
	m := e.S.Mgr
	dc := nodeclaimdisruption.NewController(e.S.Clock, e.C, e.CP)
	KeepAlive(dc)
	m.Add(&Ctrl{Name: "nodeclaim.disruption", UnderTest: true, Reconcile: objRec[*v1.NodeClaim](e.C, dc),
		Watches: []Watch{{Obj: &v1.NodeClaim{}, Preds: []predicate.Predicate{e.ncManaged()}},
			{Obj: &v1.NodePool{}, Handler: nodeclaimutils.NodePoolEventHandler(e.C, e.CP)},
			{Obj: &corev1.Pod{}, Handler: nodeclaimutils.PodEventHandler(e.C, e.CP)},
			{Obj: &v1alpha1.TestNodeClass{}, Handler: nodeclaimutils.NodeClassEventHandler(e.C)}}})
	pe := podevents.NewController(e.S.Clock, e.C, e.CP)
	m.Add(&Ctrl{Name: "nodeclaim.podevents", Reconcile: objRec[*corev1.Pod](e.C, pe),
		Watches: []Watch{{Obj: &corev1.Pod{}, Preds: []predicate.Predicate{podEventsPredicate()}}}})
}

func podEventsPredicate() predicate.Predicate {
	isTerminal := func(p *corev1.Pod) bool { return p.Status.Phase == corev1.PodFailed || p.Status.Phase == corev1.PodSucceeded }
	return predicate.Funcs{
		UpdateFunc: func(e event.UpdateEvent) bool {
			oldPod := e.ObjectOld.(*corev1.Pod)
			newPod := e.ObjectNew.(*corev1.Pod)
			bound := oldPod.Spec.NodeName == "" && newPod.Spec.NodeName != ""
			terminal := newPod.Spec.NodeName != "" && !isTerminal(oldPod) && isTerminal(newPod)
			terminating := newPod.Spec.NodeName != "" && oldPod.DeletionTimestamp == nil && newPod.DeletionTimestamp != nil
			return bound || terminal || terminating
		},
	}
}

// AddReapers registers expiration, NodeClaim garbage collection and (optionally) node health.
func (e *Env) AddReapers(repair bool) {
	m := e.S.Mgr
	m.Add(&Ctrl{Name: "nodeclaim.expiration", UnderTest: true, Reconcile: objRec[*v1.NodeClaim](e.C, expiration.NewController(e.S.Clock, e.C, e.CP)),
		Watches: []Watch{{Obj: &v1.NodeClaim{}, Preds: []predicate.Predicate{e.ncManaged()}}}})
	m.Add(&Ctrl{Name: "nodeclaim.garbagecollection", UnderTest: true, Singleton: true,
		Reconcile: singletonFn(garbagecollection.NewController(e.S.Clock, e.C, e.CP))})
	if repair {
		hc := health.NewController(e.C, e.CP, e.S.Clock, e.Rec)
		m.Add(&Ctrl{Name: "node.health", UnderTest: true, Reconcile: objRec[*corev1.Node](e.C, hc),
			Watches: []Watch{{Obj: &corev1.Node{}, Preds: []predicate.Predicate{e.nodeManaged()}}}})
	}
}

// AddTermination registers node termination, the terminator and the eviction queue. The eviction
// queue is channel-fed in production; here the simulator enqueues a request for every pod the queue
// holds (Queue.Has) after each step.
func (e *Env) AddTermination() {
	m := e.S.Mgr
	eq := terminator.NewQueue(e.S.Clock, e.C, e.Rec)
	e.Parts["evictionQueue"] = eq
	term := terminator.NewTerminator(e.S.Clock, e.C, eq, e.Rec)
	tc := termination.NewController(e.S.Clock, e.C, e.CP, term, e.Rec)
	m.Add(&Ctrl{Name: "node.termination", UnderTest: true, BaseBackoff: 100 * time.Millisecond, MaxBackoff: 10 * time.Second, MaxConc: 100,
		Reconcile: objRec[*corev1.Node](e.C, tc),
		Watches:   []Watch{{Obj: &corev1.Node{}, Preds: []predicate.Predicate{e.nodeManaged()}}}})
	m.Add(&Ctrl{Name: "eviction-queue", UnderTest: true, BaseBackoff: 100 * time.Millisecond, MaxBackoff: 10 * time.Second, MaxConc: 100,
		Reconcile: objRec[*corev1.Pod](e.C, eq)})
}

// AddProvisioning registers the provisioner singleton and its pod / node triggers.
func (e *Env) AddProvisioning() *provisioning.Provisioner {
	m := e.S.Mgr
	da := deviceallocation.NewController(e.C)
	vp := virtualpods.NewVirtualPodCache(e.C)
	e.Parts["deviceallocation"] = da
	e.Parts["virtualpods"] = vp
	p := provisioning.NewProvisioner(e.C, e.Rec, e.CP, e.Cluster, e.S.Clock, da, vp)
	KeepAlive(p)
	e.Parts["provisioner"] = p
	m.Add(&Ctrl{Name: "provisioner", UnderTest: true, Singleton: true, Reconcile: singletonFn(p)})
	m.Add(&Ctrl{Name: "provisioner.trigger.pod", Reconcile: objRec[*corev1.Pod](e.C, provisioning.NewPodController(e.C, p, e.Cluster)),
		Watches: []Watch{{Obj: &corev1.Pod{}}}})
	m.Add(&Ctrl{Name: "provisioner.trigger.node", Reconcile: objRec[*corev1.Node](e.C, provisioning.NewNodeController(e.C, p)),
		Watches: []Watch{{Obj: &corev1.Node{}}}})
	return p
}

// AddDisruption registers the disruption controller and orchestration queue. The queue is
// channel-fed in production; the simulator enqueues a request for every command in GetCommands().
func (e *Env) AddDisruption(p *provisioning.Provisioner) {
	m := e.S.Mgr
	q := disruption.NewQueue(e.C, e.Rec, e.Cluster, e.S.Clock, p)
	e.Parts["disruptionQueue"] = q
	dc := disruption.NewController(e.S.Clock, e.C, p, e.CP, e.Rec, e.Cluster, q, e.ClusterCost)
	KeepAlive(dc, q)
	e.Parts["disruption"] = dc
	m.Add(&Ctrl{Name: "disruption", UnderTest: true, Singleton: true, Reconcile: singletonFn(dc)})
	m.Add(&Ctrl{Name: "disruption.queue", UnderTest: true, BaseBackoff: time.Second, MaxBackoff: 10 * time.Second, MaxConc: 100,
		Reconcile: objRec[*v1.NodeClaim](e.C, q)})
}

// AddStatic registers static provisioning and deprovisioning (feature gate StaticCapacity).
func (e *Env) AddStatic(p *provisioning.Provisioner) {
	m := e.S.Mgr
	da, _ := e.Parts["deviceallocation"].(*deviceallocation.Controller)
	vp, _ := e.Parts["virtualpods"].(*virtualpods.Cache)
	sp := staticprovisioning.NewController(e.C, e.Cluster, e.Rec, e.CP, p, e.S.Clock, da, vp)
	KeepAlive(sp) // it builds its own Provisioner (change monitor cache)
	ncHandler := nodepoolutils.NodeClaimEventHandler(nodepoolutils.WithClient(e.C), nodepoolutils.WithStaticOnly)
	m.Add(&Ctrl{Name: "static.provisioning", UnderTest: true, Reconcile: objRec[*v1.NodePool](e.C, sp),
		Watches: []Watch{
			{Obj: &v1.NodePool{}, Preds: []predicate.Predicate{e.npManaged(), nodepoolutils.IsStaticPredicateFuncs(), predicate.Funcs{
				CreateFunc: func(event.CreateEvent) bool { return true },
				UpdateFunc: func(ev event.UpdateEvent) bool {
					return staticprovisioning.HasNodePoolReplicaOrStatusChanged(ev.ObjectOld.(*v1.NodePool), ev.ObjectNew.(*v1.NodePool))
				},
				DeleteFunc:  func(event.DeleteEvent) bool { return false },
				GenericFunc: func(event.GenericEvent) bool { return false },
			}}},
			{Obj: &v1.NodeClaim{}, Handler: ncHandler, Preds: []predicate.Predicate{predicate.Funcs{
				CreateFunc: func(event.CreateEvent) bool { return false },
				UpdateFunc: func(ev event.UpdateEvent) bool {
					return ev.ObjectOld.GetDeletionTimestamp().IsZero() && !ev.ObjectNew.GetDeletionTimestamp().IsZero()
				},
				DeleteFunc:  func(event.DeleteEvent) bool { return true },
				GenericFunc: func(event.GenericEvent) bool { return false },
			}}},
		}})
	sd := staticdeprovisioning.NewController(e.C, e.Cluster, e.CP, e.S.Clock, e.Rec)
	m.Add(&Ctrl{Name: "static.deprovisioning", UnderTest: true, Reconcile: objRec[*v1.NodePool](e.C, sd),
		Watches: []Watch{
			{Obj: &v1.NodePool{}, Preds: []predicate.Predicate{e.npManaged(), nodepoolutils.IsStaticPredicateFuncs(), predicate.Funcs{
				CreateFunc: func(event.CreateEvent) bool { return true },
				UpdateFunc: func(ev event.UpdateEvent) bool {
					return staticdeprovisioning.HasNodePoolReplicaCountChanged(ev.ObjectOld.(*v1.NodePool), ev.ObjectNew.(*v1.NodePool))
				},
				DeleteFunc:  func(event.DeleteEvent) bool { return false },
				GenericFunc: func(event.GenericEvent) bool { return false },
			}}},
			{Obj: &v1.NodeClaim{}, Handler: ncHandler, Preds: []predicate.Predicate{createOnly}},
		}})
}

// FeedChannelQueues mirrors the two channel-fed controllers after every step.
func (e *Env) FeedChannelQueues() {
	s := e.S
	if q, ok := e.Parts["disruptionQueue"].(*disruption.Queue); ok {
		c := s.Mgr.Get("disruption.queue")
		for _, cmd := range q.GetCommands() {
			if len(cmd.Candidates) == 0 {
				continue
			}
			key := reconcile.Request{NamespacedName: types.NamespacedName{Name: cmd.Candidates[0].NodeClaim.Name}}
			seen, _ := e.Parts["seenCmds"].(map[string]bool)
			if seen == nil {
				seen = map[string]bool{}
				e.Parts["seenCmds"] = seen
			}
			id := string(cmd.ID.String())
			if !seen[id] {
				seen[id] = true
				c.Enqueue(key)
			}
		}
	}
	if eq, ok := e.Parts["evictionQueue"].(*terminator.Queue); ok {
		c := s.Mgr.Get("eviction-queue")
		seen, _ := e.Parts["seenEvict"].(map[types.UID]bool)
		if seen == nil {
			seen = map[types.UID]bool{}
			e.Parts["seenEvict"] = seen
		}
		for _, o := range s.cache.List(gvkPod) {
			pod := o.(*corev1.Pod)
			if seen[pod.UID] {
				continue
			}
			if eq.Has(pod) {
				seen[pod.UID] = true
				c.Enqueue(reconcile.Request{NamespacedName: keyOf(pod)})
			}
		}
	}
}

var _ = handler.Funcs{}
var _ = workqueue.DefaultTypedControllerRateLimiter[reconcile.Request]
var _ context.Context
var _ client.Object

// FeedChannelQueuesLevel mirrors the eviction queue's channel source: a request is enqueued when a
// pod is newly present in the queue (Queue.Add sends an event only when the key was not enqueued).
func (e *Env) FeedChannelQueuesLevel(wasIn map[types.UID]bool, onEnqueued func(*corev1.Pod)) {
	s := e.S
	eq, ok := e.Parts["evictionQueue"].(*terminator.Queue)
	if !ok {
		return
	}
	c := s.Mgr.Get("eviction-queue")
	for _, o := range s.store.List(gvkPod) {
		pod := o.(*corev1.Pod)
		in := eq.Has(pod)
		if in && !wasIn[pod.UID] {
			c.Enqueue(reconcile.Request{NamespacedName: keyOf(pod)})
			if onEnqueued != nil {
				onEnqueued(pod)
			}
		}
		if in {
			wasIn[pod.UID] = true
		} else {
			delete(wasIn, pod.UID)
		}
	}
}
