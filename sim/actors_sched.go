package sim

// kube-scheduler and DaemonSet controller actors.

import (
	"fmt"
	"sort"
	"time"

	appsv1 "k8s.io/api/apps/v1"
	corev1 "k8s.io/api/core/v1"
	storagev1 "k8s.io/api/storage/v1"
	metav1 "k8s.io/apimachinery/pkg/apis/meta/v1"
	"k8s.io/apimachinery/pkg/types"
	"k8s.io/utils/ptr"
	"sigs.k8s.io/controller-runtime/pkg/client"
)

const actorSched = -3000

type KubeScheduler struct {
	e      *Env
	s      *Sim
	Period time.Duration
	PBind  float64
	Bound  int
	GiveUp time.Duration // pods pending longer than this are deleted by their owner (0 = never)
	OnGiveUp func(*corev1.Pod)
	// InterPod, when set, additionally filters bindings by the inter-pod model.
	InterPod func(pod *corev1.Pod, node *ModelNode, all []*ModelNode) bool
}

func NewKubeScheduler(e *Env) *KubeScheduler {
	return &KubeScheduler{e: e, s: e.S, Period: 3 * time.Second, PBind: 0.7}
}

func (ks *KubeScheduler) Start() {
	ks.s.AddTimer(actorSched, ks.Period, "kube-scheduler tick", false, ks.tick)
}

// ServerStorage builds the storage view from server truth.
func (e *Env) ServerStorage() *StorageView {
	st := e.S.store
	sv := &StorageView{PVCs: map[string]*corev1.PersistentVolumeClaim{}, PVs: map[string]*corev1.PersistentVolume{}, SCs: map[string]allowedZones{}}
	for _, o := range st.List(gvkPVC) {
		sv.PVCs[o.GetNamespace()+"/"+o.GetName()] = o.(*corev1.PersistentVolumeClaim)
	}
	for _, o := range st.List(gvkPV) {
		sv.PVs[o.GetName()] = o.(*corev1.PersistentVolume)
	}
	for _, o := range st.List(gvkSC) {
		sc := o.(*storagev1.StorageClass)
		az := allowedZones{provisioner: sc.Provisioner}
		for _, t := range sc.AllowedTopologies {
			for _, e := range t.MatchLabelExpressions {
				if e.Key == corev1.LabelTopologyZone {
					az.zones = append(az.zones, e.Values...)
				}
			}
		}
		sv.SCs[sc.Name] = az
	}
	return sv
}

// ServerNodes builds model nodes from the Node objects on the server with their bound pods.
func (e *Env) ServerNodes() []*ModelNode {
	st := e.S.store
	byNode := map[string][]*corev1.Pod{}
	for _, o := range st.List(gvkPod) {
		p := o.(*corev1.Pod)
		if p.Spec.NodeName == "" || podTerminal(p) {
			continue
		}
		byNode[p.Spec.NodeName] = append(byNode[p.Spec.NodeName], p)
	}
	var out []*ModelNode
	for _, o := range st.List(gvkNode) {
		n := o.(*corev1.Node)
		out = append(out, &ModelNode{Name: n.Name, Labels: n.Labels, Taints: n.Spec.Taints, Allocatable: n.Status.Allocatable, Pods: byNode[n.Name], Meta: "node"})
	}
	return out
}

func (ks *KubeScheduler) tick() {
	s := ks.s
	st := s.store
	defer ks.s.AddTimer(actorSched, ks.Period, "kube-scheduler tick", false, ks.tick)
	var pending []*corev1.Pod
	for _, o := range st.List(gvkPod) {
		p := o.(*corev1.Pod)
		if p.Spec.NodeName == "" && p.DeletionTimestamp == nil && !podTerminal(p) {
			pending = append(pending, p)
		}
	}
	if len(pending) == 0 {
		return
	}
	sv := ks.e.ServerStorage()
	nodes := ks.e.ServerNodes()
	ready := map[string]bool{}
	for _, o := range st.List(gvkNode) {
		n := o.(*corev1.Node)
		ready[n.Name] = nodeIsReady(n) && n.DeletionTimestamp == nil && !n.Spec.Unschedulable
	}
	for _, p := range pending {
		if ks.GiveUp > 0 && s.Now().Sub(p.CreationTimestamp.Time) > ks.GiveUp {
			if ks.OnGiveUp != nil {
				ks.OnGiveUp(p)
			}
			_ = st.Delete(p, DeleteOpts{}, nil)
			s.Stat("env.pod.givenup")
			continue
		}
		var cands []*ModelNode
		for _, n := range nodes {
			if !ready[n.Name] {
				continue
			}
			if Admit(p, n, sv) != "" {
				continue
			}
			if ks.InterPod != nil && !ks.InterPod(p, n, nodes) {
				continue
			}
			cands = append(cands, n)
		}
		if len(cands) > 0 && s.Ch.Chance("ks.bind", ks.PBind) {
			n := cands[s.Ch.Pick("ks.node", len(cands))]
			now := st.now()
			st.Mutate(gvkPod, keyOf(p), func(o client.Object) {
				q := o.(*corev1.Pod)
				q.Spec.NodeName = n.Name
				q.Status.Phase = corev1.PodRunning
				q.Status.StartTime = &now
				setPodScheduled(q, corev1.ConditionTrue, "")
			})
			n.Pods = append(n.Pods, p)
			ks.Bound++
			s.Stat("env.pod.bound")
			continue
		}
		if !podUnschedulable(p) {
			st.Mutate(gvkPod, keyOf(p), func(o client.Object) { setPodScheduled(o.(*corev1.Pod), corev1.ConditionFalse, corev1.PodReasonUnschedulable) })
		}
	}
}

func podUnschedulable(p *corev1.Pod) bool {
	for _, c := range p.Status.Conditions {
		if c.Type == corev1.PodScheduled && c.Reason == corev1.PodReasonUnschedulable {
			return true
		}
	}
	return false
}

func setPodScheduled(p *corev1.Pod, st corev1.ConditionStatus, reason string) {
	for i := range p.Status.Conditions {
		if p.Status.Conditions[i].Type == corev1.PodScheduled {
			p.Status.Conditions[i].Status = st
			p.Status.Conditions[i].Reason = reason
			return
		}
	}
	p.Status.Conditions = append(p.Status.Conditions, corev1.PodCondition{Type: corev1.PodScheduled, Status: st, Reason: reason})
}

// DaemonSetController creates one daemon pod per (daemonset, node) when the node admits it.
type DaemonSetController struct {
	e    *Env
	s    *Sim
	done map[string]bool
}

func NewDaemonSetController(e *Env) *DaemonSetController {
	d := &DaemonSetController{e: e, s: e.S, done: map[string]bool{}}
	e.S.AddTimer(actorSched, 4*time.Second, "daemonset tick", false, d.tick)
	return d
}

// DaemonPod renders the pod a daemonset creates.
func DaemonPod(ds *appsv1.DaemonSet) *corev1.Pod {
	p := &corev1.Pod{ObjectMeta: metav1.ObjectMeta{Namespace: ds.Namespace, Labels: ds.Spec.Template.Labels,
		OwnerReferences: []metav1.OwnerReference{{APIVersion: "apps/v1", Kind: "DaemonSet", Name: ds.Name, UID: ds.UID, Controller: ptr.To(true), BlockOwnerDeletion: ptr.To(true)}}},
		Spec: *ds.Spec.Template.Spec.DeepCopy()}
	// the daemonset controller adds the standard tolerations
	p.Spec.Tolerations = append(p.Spec.Tolerations,
		corev1.Toleration{Key: corev1.TaintNodeNotReady, Operator: corev1.TolerationOpExists, Effect: corev1.TaintEffectNoExecute},
		corev1.Toleration{Key: corev1.TaintNodeUnreachable, Operator: corev1.TolerationOpExists, Effect: corev1.TaintEffectNoExecute},
		corev1.Toleration{Key: corev1.TaintNodeDiskPressure, Operator: corev1.TolerationOpExists, Effect: corev1.TaintEffectNoSchedule},
		corev1.Toleration{Key: corev1.TaintNodeMemoryPressure, Operator: corev1.TolerationOpExists, Effect: corev1.TaintEffectNoSchedule},
		corev1.Toleration{Key: corev1.TaintNodePIDPressure, Operator: corev1.TolerationOpExists, Effect: corev1.TaintEffectNoSchedule},
		corev1.Toleration{Key: corev1.TaintNodeUnschedulable, Operator: corev1.TolerationOpExists, Effect: corev1.TaintEffectNoSchedule},
	)
	return p
}

func (d *DaemonSetController) tick() {
	s := d.s
	st := s.store
	defer s.AddTimer(actorSched, 4*time.Second, "daemonset tick", false, d.tick)
	dss := st.List(gvkDS)
	if len(dss) == 0 {
		return
	}
	nodes := d.e.ServerNodes()
	sort.Slice(nodes, func(i, j int) bool { return nodes[i].Name < nodes[j].Name })
	for _, o := range dss {
		ds := o.(*appsv1.DaemonSet)
		for _, n := range nodes {
			key := ds.Name + "@" + n.Name
			if d.done[key] {
				continue
			}
			no := st.Get(gvkNode, types.NamespacedName{Name: n.Name})
			if no == nil || !nodeIsReady(no.(*corev1.Node)) {
				continue
			}
			p := DaemonPod(ds)
			p.UID = types.UID("probe")
			if Admit(p, n, nil) != "" {
				continue
			}
			p.UID = ""
			p.Name = fmt.Sprintf("%s-%s", ds.Name, n.Name)
			p.Spec.NodeName = n.Name
			p.Status.Phase = corev1.PodRunning
			if _, err := st.Create(p, nil); err == nil {
				d.done[key] = true
				s.Stat("env.daemonpod")
			}
		}
	}
}
