package sim

// Profile `static` (C03, replica-based NodePools): the REAL static provisioning and
// deprovisioning controllers, NodePoolState reservation bookkeeping, cluster state informers,
// lifecycle, termination, the disruption controller (StaticDrift) and its queue run while users
// edit replicas, node limits and templates, delete NodeClaims, launches fail and the process
// restarts. The scheduler interleaves reserve / create / release with the NodeClaim informer
// (whose Cleanup garbage collects the pool entry).

import (
	"fmt"
	"strings"
	"time"

	corev1 "k8s.io/api/core/v1"
	"k8s.io/apimachinery/pkg/api/resource"
	metav1 "k8s.io/apimachinery/pkg/apis/meta/v1"
	"k8s.io/apimachinery/pkg/types"
	"k8s.io/utils/ptr"
	"sigs.k8s.io/controller-runtime/pkg/client"

	v1 "sigs.k8s.io/karpenter/pkg/apis/v1"
	"sigs.k8s.io/karpenter/pkg/controllers/provisioning"
)

type staticProfile struct {
	lostNC map[string]bool // NodeClaims created by a call whose response was lost
	e   *Env
	s   *Sim
	ch  *Chooser
	k   *Kubelet
	ops []string

	pools       []string
	lastEdit    map[string]time.Time // pool -> last user edit of replicas / limits / template
	limitLower  map[string]int       // pool -> step at which the user last lowered the node limit or replicas
	evWasIn     map[types.UID]bool
	quietSince  time.Time
}

func init() { Profiles["static"] = func() Profile { return &staticProfile{} } }

func (p *staticProfile) Name() string { return "static" }

func (p *staticProfile) note(format string, a ...interface{}) {
	m := fmt.Sprintf(format, a...)
	if len(p.ops) < 200 {
		p.ops = append(p.ops, fmt.Sprintf("t=%s %s", p.s.Elapsed().Truncate(time.Second), m))
	}
	p.s.Logf("op   %s", m)
}

func (p *staticProfile) build() {
	p.e.resetManager()
	p.e.AddStateControllers()
	p.e.AddNodePoolControllers()
	p.e.AddLifecycle()
	p.e.AddNodeClaimDisruption()
	pr := p.e.AddProvisioning()
	p.e.AddTermination()
	p.e.AddDisruption(pr)
	p.e.AddStatic(pr)
	p.evWasIn = map[types.UID]bool{}
	delete(p.e.Parts, "seenCmds")
	p.s.Mgr.Resync()
}

func (p *staticProfile) Run(s *Sim) {
	p.s, p.ch = s, s.Ch
	ch := s.Ch
	p.e = NewEnv(s)
	p.e.Opts = DefaultOptions()
	p.e.Opts.FeatureGates.StaticCapacity = true
	s.DrawKnobs()
	s.Knobs.PCrash /= 10
	p.lastEdit = map[string]time.Time{}
	p.limitLower = map[string]int{}
	p.e.CP.Catalog = GenCatalog(ch, CatalogSpec{Types: 3 + ch.Pick("st.types", 4), Zones: []string{"zone-a", "zone-b"}, Spot: true})
	p.k = NewKubelet(p.e)
	p.k.RegDelayMax = 60 * time.Second
	p.k.ReadyDelayMax = 20 * time.Second
	p.k.WatchPods()
	p.k.StartCCM(40 * time.Second)
	p.k.StartProviderGC(2*time.Minute, 5*time.Minute)
	if !s.Cfg.NoFaults {
		p.k.PNoRegister = []float64{0, 0.1}[ch.Pick("st.pnoreg", 2)]
	}
	s.Clock.LazyRule = func(t *Task, d time.Duration, nth int) bool { return t.Ctrl.Name == "provisioner" && d == time.Second && nth == 0 }
	s.OnTaskDone(p.onTaskDone)
	s.AddObserver(p.observe)
	s.Boot(p.e.BaseCtx(), p.build)
	p.e.DefaultNodeClass()
	must(s.store.Create(&corev1.Namespace{ObjectMeta: metav1.ObjectMeta{Name: "default"}}, nil))
	nPools := 1 + ch.Pick("st.npools", 2)
	for i := 0; i < nPools; i++ {
		np := p.e.MakeNodePool(fmt.Sprintf("static-%d", i), ch)
		r := int64(1 + ch.Pick("st.replicas", 4))
		np.Spec.Replicas = ptr.To(r)
		switch ch.Pick("st.limit", 3) {
		case 0:
			np.Spec.Limits = v1.Limits{"nodes": *resource.NewQuantity(r, resource.DecimalSI)}
		case 1:
			np.Spec.Limits = v1.Limits{"nodes": *resource.NewQuantity(r+int64(1+ch.Pick("st.slack", 2)), resource.DecimalSI)}
		}
		np.Spec.Disruption.Budgets = []v1.Budget{{Nodes: []string{"1", "100%", "50%"}[ch.Pick("st.budget", 3)]}}
		must(s.store.Create(np, nil))
		p.pools = append(p.pools, np.Name)
	}
	horizon := time.Duration(6+ch.Pick("st.horizon", 12)) * time.Minute
	nOps := 3 + ch.Pick("st.nops", 10)
	for i := 0; i < nOps; i++ {
		at := time.Duration(30+ch.Pick("st.at", int(horizon/time.Second))) * time.Second
		s.AddTimer(actorUser, at, fmt.Sprintf("user op %d", i), false, p.op)
	}
	faultStop := horizon + 2*time.Minute
	s.AddTimer(actorUser, faultStop, "faults stop", false, func() { s.FaultsOn = false; p.quietSince = s.Now(); s.Logf("env  faults stop") })
	end := faultStop + 45*time.Minute
	maxSteps := 40000
	if !s.Cfg.NoFaults && s.Knobs.PCrash > 0 {
		s.AddActions(crashSource{s})
	}
	for s.step < maxSteps && s.Elapsed() < end && len(s.Viol) == 0 && s.Fatal == "" {
		if !s.StepOnce() {
			break
		}
	}
	if s.step >= maxSteps {
		s.Stat("static.stepcap")
	} else if s.Elapsed() >= end {
		p.finalChecks()
	}
	s.Sample = p.ops
}

func (p *staticProfile) op() {
	ch := p.ch
	st := p.s.store
	s := p.s
	pool := p.pools[ch.Pick("st.pool", len(p.pools))]
	key := types.NamespacedName{Name: pool}
	switch ch.Pick("st.op", 9) - 1 {
	case -1:
	case 0, 1: // scale
		r := int64(ch.Pick("st.newreplicas", 6))
		st.Mutate(gvkNodePool, key, func(o client.Object) {
			np := o.(*v1.NodePool)
			if r < *np.Spec.Replicas {
				p.limitLower[pool] = s.step
			}
			np.Spec.Replicas = ptr.To(r)
			if lim, ok := np.Spec.Limits["nodes"]; ok && lim.Value() < r && ch.Pick("st.keeplimit", 2) == 0 {
				np.Spec.Limits["nodes"] = *resource.NewQuantity(r, resource.DecimalSI)
			}
		})
		p.lastEdit[pool] = s.Now()
		p.note("replicas of %s = %d", pool, r)
	case 2: // node limit edit
		st.Mutate(gvkNodePool, key, func(o client.Object) {
			np := o.(*v1.NodePool)
			nl := *np.Spec.Replicas + int64(ch.Pick("st.limitslack", 3))
			// a limit that is introduced, or lowered, may lie below what already exists
			if old, ok := np.Spec.Limits["nodes"]; !ok || nl < old.Value() {
				p.limitLower[pool] = s.step
			}
			np.Spec.Limits = v1.Limits{"nodes": *resource.NewQuantity(nl, resource.DecimalSI)}
		})
		p.lastEdit[pool] = s.Now()
		p.note("node limit of %s edited", pool)
	case 3, 4: // user deletes a NodeClaim of the pool
		var l []client.Object
		for _, o := range st.List(gvkNodeClaim) {
			if o.GetLabels()[v1.NodePoolLabelKey] == pool {
				l = append(l, o)
			}
		}
		if len(l) > 0 {
			o := l[ch.Pick("st.pick", len(l))]
			_ = st.Delete(o, DeleteOpts{}, nil)
			p.lastEdit[pool] = s.Now()
			p.note("user deletes NodeClaim %s", o.GetName())
		}
	case 5: // template edit => static drift
		st.Mutate(gvkNodePool, key, func(o client.Object) {
			np := o.(*v1.NodePool)
			if np.Spec.Template.Annotations == nil {
				np.Spec.Template.Annotations = map[string]string{}
			}
			np.Spec.Template.Annotations["example.com/rev"] = fmt.Sprint(s.step)
		})
		p.lastEdit[pool] = s.Now()
		p.note("template of %s edited (drift)", pool)
		if ch.Pick("st.driftthendelete", 2) == 1 {
			// while the drifted nodes are being replaced one NodeClaim of the pool is lost as well: static provisioning
			// and the static-drift method then both want to create NodeClaims under the same node limit
			d := time.Duration(10+ch.Pick("st.deleteafter", 50)) * time.Second
			s.AddTimer(actorUser, d, "delete during drift", false, func() {
				for _, o := range st.List(gvkNodeClaim) {
					if o.GetLabels()[v1.NodePoolLabelKey] == pool && o.GetDeletionTimestamp() == nil {
						_ = st.Delete(o, DeleteOpts{}, nil)
						p.lastEdit[pool] = s.Now()
						p.note("user deletes NodeClaim %s (during drift replacement)", o.GetName())
						break
					}
				}
			})
		}
	case 6: // crash
		if s.FaultsOn && !s.Cfg.NoFaults && s.Knobs.FaultKinds["crash"] {
			p.note("crash")
			s.Crash()
		}
	case 7: // an instance vanishes
		live := p.e.CP.LiveInstances()
		if len(live) > 0 {
			inst := live[ch.Pick("st.pick", len(live))]
			inst.Terminating, inst.Gone, inst.GoneAt = true, true, s.Now()
			p.lastEdit[inst.NodePool] = s.Now()
			p.note("instance %s vanishes", inst.ID)
		}
	}
}

func (p *staticProfile) observe() {
	s := p.s
	p.e.FeedChannelQueues()
	p.e.FeedChannelQueuesLevel(p.evWasIn, nil)
	st := s.store
	// C03 static: the number of NodeClaims of a pool (including deleting ones) never exceeds its node limit
	for _, t := range s.tasks {
		p.noteLostCreates(t)
	}
	count := map[string]int{}
	for _, o := range st.List(gvkNodeClaim) {
		if p.lostNC[o.GetName()] {
			s.Probe("c03-static-lost-create-not-counted")
			continue
		}
		count[o.GetLabels()[v1.NodePoolLabelKey]]++
	}
	for _, name := range p.pools {
		o := st.Get(gvkNodePool, types.NamespacedName{Name: name})
		if o == nil {
			continue
		}
		np := o.(*v1.NodePool)
		lim, ok := np.Spec.Limits["nodes"]
		if !ok {
			continue
		}
		if step, lowered := p.limitLower[name]; lowered && step > 0 {
			// the user lowered the limit or the replica count during the run: NodeClaims created under the old limit may
			// exceed the new one until deprovisioning catches up; from then on the limit is enforced again
			// (not before reconciles that read the pool before the edit, or a lagging cached copy of it, are over)
			if int64(count[name]) <= lim.Value() && s.Now().Sub(p.lastEdit[name]) > 3*time.Minute {
				delete(p.limitLower, name)
			}
			continue
		}
		if int64(count[name]) > lim.Value() {
			s.Violate("C03", "static-node-limit-exceeded", "static NodePool %s has %d NodeClaims (including deleting ones) but its node limit is %d (replicas %d)", name, count[name], lim.Value(), *np.Spec.Replicas)
			return
		}
	}
	s.Probe("c03-static-limit-checked")
}

// noteLostCreates: NodeClaims whose create took effect but whose response was lost (or whose creator crashed right
// after): Karpenter cannot count what was never acknowledged to it (rule R5, narrowly: only these objects).
func (p *staticProfile) noteLostCreates(t *Task) {
	for _, w := range t.Writes {
		if w.Kind == "NodeClaim" && w.Verb == "create" && (w.Fault == FErrAfter || w.Fault == FCrashAfter) && w.Obj != nil {
			if o, ok := w.Obj.(client.Object); ok {
				if p.lostNC == nil {
					p.lostNC = map[string]bool{}
				}
				p.lostNC[o.GetName()] = true
			}
		}
	}
}

func (p *staticProfile) onTaskDone(t *Task) {
	s := p.s
	p.noteLostCreates(t)
	if t.Panic == nil {
		return
	}
	n := t.Ctrl.Name
	if strings.HasPrefix(n, "static.") || n == "provisioner" || strings.HasPrefix(n, "state.") || strings.HasPrefix(n, "disruption") {
		s.Violate("C03", "controller-crash", "%s panicked (a panic in a worker goroutine kills the controller process): %v\n%s", n, t.Panic, firstLines(t.PanicSt, 16))
	}
}

// finalChecks: once faults and edits have stopped for 30 simulated minutes every static pool sits at
// its replica count (bounded by its node limit).
func (p *staticProfile) finalChecks() {
	s := p.s
	st := s.store
	if SettleForDifferential(s) {
		StateDifferential(p.e, p.pools, "end of run (static)")
	}
	for _, name := range p.pools {
		o := st.Get(gvkNodePool, types.NamespacedName{Name: name})
		if o == nil {
			continue
		}
		np := o.(*v1.NodePool)
		if last, ok := p.lastEdit[name]; ok && s.Now().Sub(last) < 30*time.Minute {
			continue
		}
		if s.Now().Sub(p.quietSince) < 30*time.Minute || p.quietSince.IsZero() {
			continue
		}
		want := *np.Spec.Replicas
		if lim, ok := np.Spec.Limits["nodes"]; ok && lim.Value() < want {
			want = lim.Value()
		}
		have := int64(0)
		for _, o := range st.List(gvkNodeClaim) {
			if o.GetLabels()[v1.NodePoolLabelKey] == name && o.GetDeletionTimestamp() == nil {
				have++
			}
		}
		s.Probe("c03-static-settle-checked")
		if have != want {
			a, d, pd := p.e.Cluster.NodePoolState.GetNodeCount(name)
			s.Violate("C03", "static-not-settled", "30 simulated minutes after the last fault and edit static NodePool %s has %d non-deleting NodeClaims but wants %d (replicas %d); Karpenter's own count: active=%d deleting=%d pending-disruption=%d", name, have, want, *np.Spec.Replicas, a, d, pd)
		}
	}
}

var _ *provisioning.Provisioner
