package sim

// Profile `term` (C09, C10, repair clause of C16): nodes brought up by the real lifecycle controller
// are populated with pods (owners, priorities, grace periods, do-not-disrupt, tolerations, PDBs,
// volumes), then deleted by users, expiry and repair while the REAL node termination controller,
// terminator, eviction queue and NodeClaim finalizer run under faults, restarts and clock jumps.

import (
	"fmt"
	"sort"
	"strings"
	"time"

	corev1 "k8s.io/api/core/v1"
	policyv1 "k8s.io/api/policy/v1"
	storagev1 "k8s.io/api/storage/v1"
	"k8s.io/apimachinery/pkg/api/resource"
	metav1 "k8s.io/apimachinery/pkg/apis/meta/v1"
	"k8s.io/apimachinery/pkg/labels"
	"k8s.io/apimachinery/pkg/types"
	"k8s.io/utils/ptr"
	"sigs.k8s.io/controller-runtime/pkg/client"

	v1 "sigs.k8s.io/karpenter/pkg/apis/v1"
	"sigs.k8s.io/karpenter/pkg/cloudprovider"
	"sigs.k8s.io/karpenter/pkg/controllers/node/termination/terminator"
)

var gvkPDB = policyv1.SchemeGroupVersion.WithKind("PodDisruptionBudget")

type termProfile struct {
	e    *Env
	s    *Sim
	ch   *Chooser
	k    *Kubelet
	ops  []string
	nNC  int
	nPod int

	pools   []*v1.NodePool
	repair  bool
	wasIn   map[types.UID]bool
	minT    map[string]time.Time // node name -> earliest termination deadline read by a drain pass
	hadT    map[string]bool      // nodeclaim name -> a termination deadline annotation has existed
	evicted map[types.UID]bool
	podUnk  map[types.UID]bool
	podEnqT map[types.UID]*time.Time // the deadline of the (attributed) drain pass that enqueued the pod: the stored one is never later
	podMinT map[types.UID]*time.Time // earliest deadline the pod has been queued under since it was (re-)enqueued
}

func init() { Profiles["term"] = func() Profile { return &termProfile{} } }

func (p *termProfile) Name() string { return "term" }

func (p *termProfile) note(format string, a ...interface{}) {
	m := fmt.Sprintf(format, a...)
	if len(p.ops) < 200 {
		p.ops = append(p.ops, fmt.Sprintf("t=%s %s", p.s.Elapsed().Truncate(time.Second), m))
	}
	p.s.Logf("op   %s", m)
}

func (p *termProfile) build() {
	p.e.resetManager()
	p.e.AddLifecycle()
	p.e.AddTermination()
	p.e.AddReapers(p.repair)
	p.wasIn = map[types.UID]bool{}
	p.podMinT = map[types.UID]*time.Time{}
	p.podUnk = map[types.UID]bool{}
	p.podEnqT = map[types.UID]*time.Time{}
	p.s.Mgr.Resync()
}

func (p *termProfile) Run(s *Sim) {
	p.s, p.ch = s, s.Ch
	ch := s.Ch
	p.e = NewEnv(s)
	p.e.Opts = DefaultOptions()
	s.DrawKnobs()
	p.minT = map[string]time.Time{}
	p.hadT = map[string]bool{}
	p.evicted = map[types.UID]bool{}
	p.repair = ch.Pick("term.repair", 2) == 0
	p.e.Opts.FeatureGates.NodeRepair = p.repair
	if p.repair {
		p.e.CP.Repair = []cloudprovider.RepairPolicy{{ConditionType: "BadNode", ConditionStatus: corev1.ConditionTrue, TolerationDuration: time.Duration(5+ch.Pick("term.toleration", 25)) * time.Minute}}
		// providers declare several policies with different tolerations (e.g. Ready 30m, accelerator 10m), in any order
		switch ch.Pick("term.policies", 3) {
		case 1:
			p.e.CP.Repair = append(p.e.CP.Repair, cloudprovider.RepairPolicy{ConditionType: "BadDevice", ConditionStatus: corev1.ConditionTrue, TolerationDuration: time.Duration(1+ch.Pick("term.toleration2", 8)) * time.Minute})
		case 2:
			p.e.CP.Repair = append([]cloudprovider.RepairPolicy{{ConditionType: "BadDevice", ConditionStatus: corev1.ConditionTrue, TolerationDuration: time.Duration(1+ch.Pick("term.toleration2", 8)) * time.Minute}}, p.e.CP.Repair...)
		}
	}
	p.e.CP.Catalog = GenCatalog(ch, CatalogSpec{Types: 4, Zones: []string{"zone-a", "zone-b"}, Spot: true})
	p.e.CP.ListLag = true
	p.e.CP.TermDelayMax = []time.Duration{0, 30 * time.Second, 5 * time.Minute}[ch.Pick("term.termdelay", 3)]
	p.k = NewKubelet(p.e)
	p.k.RegDelayMax = 20 * time.Second
	p.k.ReadyDelayMax = 10 * time.Second
	p.k.PStuckPod = []float64{0, 0.1}[ch.Pick("term.pstuck", 2)]
	p.k.WatchPods()
	p.k.StartCCM(40 * time.Second)
	s.store.OnWrite = append(s.store.OnWrite, p.onWrite)
	s.OnTaskDone(p.onTaskDone)
	s.AddObserver(p.observe)
	faultsWanted := !s.Cfg.NoFaults
	s.FaultsOn = false

	s.Boot(p.e.BaseCtx(), p.build)
	p.e.DefaultNodeClass()
	must(s.store.Create(&corev1.Namespace{ObjectMeta: metav1.ObjectMeta{Name: "default"}}, nil))
	must(s.store.Create(&storagev1.StorageClass{ObjectMeta: metav1.ObjectMeta{Name: "sc-a"}, Provisioner: "csi.a"}, nil))
	nPools := 1 + ch.Pick("term.npools", 2)
	for i := 0; i < nPools; i++ {
		np := p.e.MakeNodePool(fmt.Sprintf("pool-%d", i), ch)
		switch ch.Pick("term.tgp", 4) {
		case 0:
		case 1:
			np.Spec.Template.Spec.TerminationGracePeriod = &metav1.Duration{Duration: 2 * time.Minute}
		case 2:
			np.Spec.Template.Spec.TerminationGracePeriod = &metav1.Duration{Duration: 30 * time.Minute}
		case 3:
			np.Spec.Template.Spec.TerminationGracePeriod = &metav1.Duration{Duration: 30 * time.Second}
		}
		if ch.Pick("term.expire", 3) == 0 {
			np.Spec.Template.Spec.ExpireAfter = v1.MustParseNillableDuration([]string{"20m", "1h"}[ch.Pick("term.expirev", 2)])
		}
		p.pools = append(p.pools, must(s.store.Create(np, nil)).(*v1.NodePool))
	}
	// PDBs
	for i := 0; i < 1+ch.Pick("term.npdb", 3); i++ {
		pdb := &policyv1.PodDisruptionBudget{ObjectMeta: metav1.ObjectMeta{Name: fmt.Sprintf("pdb-%d", i), Namespace: "default"},
			Spec: policyv1.PodDisruptionBudgetSpec{Selector: &metav1.LabelSelector{MatchLabels: map[string]string{"app": fmt.Sprintf("a%d", i)}}}}
		o := must(s.store.Create(pdb, nil))
		allowed := int32(ch.Pick("term.pdballowed", 3))
		s.store.Mutate(gvkPDB, keyOf(o), func(o client.Object) { o.(*policyv1.PodDisruptionBudget).Status.DisruptionsAllowed = allowed })
	}
	// bring-up: NodeClaims through the real lifecycle, no faults
	nNodes := 2 + ch.Pick("term.nnodes", 5)
	if s.Cfg.Forced != nil {
		nNodes = 1 + ch.Pick("term.nnodes", 2)
	}
	for i := 0; i < nNodes; i++ {
		pool := p.pools[ch.Pick("term.pool", len(p.pools))]
		p.nNC++
		nc := p.e.MakeNodeClaim(fmt.Sprintf("nc-%d", p.nNC), pool, ch)
		nc.Spec.StartupTaints = nil
		nc.Spec.Taints = nil
		delete(nc.Spec.Resources.Requests, GPUResource)
		nc.Spec.TerminationGracePeriod = pool.Spec.Template.Spec.TerminationGracePeriod
		must(s.store.Create(nc, nil))
	}
	for i := 0; i < 4000 && s.Elapsed() < 3*time.Minute; i++ {
		if !s.StepOnce() {
			break
		}
	}
	// populate nodes with pods
	for _, o := range s.store.List(gvkNode) {
		n := o.(*corev1.Node)
		if n.Labels[v1.NodeInitializedLabelKey] != "true" {
			continue
		}
		for j := 0; j < 1+ch.Pick("term.npods", 5); j++ {
			p.addPod(n)
		}
	}
	s.FaultsOn = faultsWanted
	p.k.PFlap = 0
	// deletion phase
	horizon := time.Duration(10+ch.Pick("term.horizon", 30)) * time.Minute
	nOps := 3 + ch.Pick("term.nops", 12)
	if s.Cfg.Forced != nil {
		horizon = time.Duration(5+ch.Pick("term.horizon", 10)) * time.Minute
		nOps = 2 + ch.Pick("term.nops", 4)
	}
	for i := 0; i < nOps; i++ {
		at := time.Duration(ch.Pick("term.at", int(horizon/time.Second))) * time.Second
		s.AddTimer(actorUser, at, fmt.Sprintf("user op %d", i), false, p.op)
	}
	faultStop := horizon + 2*time.Minute
	s.AddTimer(actorUser, faultStop, "faults stop", false, func() { s.FaultsOn = false; s.Logf("env  faults stop") })
	end := s.Elapsed() + faultStop + 50*time.Minute
	maxSteps := s.step + 15000
	if !s.Cfg.NoFaults && s.Knobs.PCrash > 0 {
		s.AddActions(crashSource{s})
	}
	for s.step < maxSteps && s.Elapsed() < end && len(s.Viol) == 0 && s.Fatal == "" {
		if !s.StepOnce() {
			break
		}
	}
	if s.step >= maxSteps {
		s.Stat("term.stepcap")
	}
	p.finalChecks()
	s.Sample = p.ops
}

func (p *termProfile) addPod(n *corev1.Node) {
	ch := p.ch
	st := p.s.store
	p.nPod++
	pod := &corev1.Pod{ObjectMeta: metav1.ObjectMeta{Name: fmt.Sprintf("pod-%d", p.nPod), Namespace: "default", Labels: map[string]string{"app": fmt.Sprintf("a%d", ch.Pick("term.app", 4))}}}
	pod.Spec.NodeName = n.Name
	pod.Spec.Containers = []corev1.Container{{Name: "c", Image: "x", Resources: corev1.ResourceRequirements{Requests: corev1.ResourceList{corev1.ResourceCPU: resource.MustParse("100m")}}}}
	switch ch.Pick("term.owner", 6) {
	case 0, 1:
		pod.OwnerReferences = []metav1.OwnerReference{{APIVersion: "apps/v1", Kind: "ReplicaSet", Name: "rs", UID: "rs-uid", Controller: ptr.To(true)}}
	case 2:
		pod.OwnerReferences = []metav1.OwnerReference{{APIVersion: "apps/v1", Kind: "StatefulSet", Name: "sts", UID: "sts-uid", Controller: ptr.To(true)}}
	case 3:
		pod.OwnerReferences = []metav1.OwnerReference{{APIVersion: "apps/v1", Kind: "DaemonSet", Name: "ds", UID: "ds-uid", Controller: ptr.To(true)}}
	case 4:
		pod.OwnerReferences = []metav1.OwnerReference{{APIVersion: "v1", Kind: "Node", Name: n.Name, UID: n.UID, Controller: ptr.To(true)}}
	}
	switch ch.Pick("term.prio", 4) {
	case 0:
		pod.Spec.PriorityClassName = "system-cluster-critical"
	case 1:
		pod.Spec.PriorityClassName = "system-node-critical"
	}
	switch ch.Pick("term.grace", 5) {
	case 0:
	case 1:
		pod.Spec.TerminationGracePeriodSeconds = ptr.To(int64(0))
	case 2:
		pod.Spec.TerminationGracePeriodSeconds = ptr.To(int64(30))
	case 3:
		pod.Spec.TerminationGracePeriodSeconds = ptr.To(int64(600))
	case 4:
		pod.Spec.TerminationGracePeriodSeconds = ptr.To(int64(7200))
	}
	switch ch.Pick("term.dnd", 6) {
	case 0:
		pod.Annotations = map[string]string{v1.DoNotDisruptAnnotationKey: "true"}
	case 1:
		pod.Annotations = map[string]string{v1.DoNotDisruptAnnotationKey: []string{"5m", "20m", "1h"}[ch.Pick("term.dndv", 3)]}
	}
	if ch.Pick("term.tolerate", 7) == 0 {
		pod.Spec.Tolerations = []corev1.Toleration{{Key: v1.DisruptedTaintKey, Operator: corev1.TolerationOpExists}}
	}
	if ch.Pick("term.vol", 4) == 0 {
		pvcName := fmt.Sprintf("pvc-%d", p.nPod)
		pvName := fmt.Sprintf("pv-%d", p.nPod)
		must(st.Create(&corev1.PersistentVolume{ObjectMeta: metav1.ObjectMeta{Name: pvName}, Spec: corev1.PersistentVolumeSpec{
			PersistentVolumeSource: corev1.PersistentVolumeSource{CSI: &corev1.CSIPersistentVolumeSource{Driver: "csi.a", VolumeHandle: pvName}}}}, nil))
		must(st.Create(&corev1.PersistentVolumeClaim{ObjectMeta: metav1.ObjectMeta{Name: pvcName, Namespace: "default"},
			Spec: corev1.PersistentVolumeClaimSpec{StorageClassName: ptr.To("sc-a"), VolumeName: pvName}}, nil))
		pod.Spec.Volumes = []corev1.Volume{{Name: "v", VolumeSource: corev1.VolumeSource{PersistentVolumeClaim: &corev1.PersistentVolumeClaimVolumeSource{ClaimName: pvcName}}}}
		must(st.Create(&storagev1.VolumeAttachment{ObjectMeta: metav1.ObjectMeta{Name: "va-" + pvName},
			Spec: storagev1.VolumeAttachmentSpec{Attacher: "csi.a", NodeName: n.Name, Source: storagev1.VolumeAttachmentSource{PersistentVolumeName: ptr.To(pvName)}}}, nil))
	}
	pod.Status.Phase = corev1.PodRunning
	now := st.now()
	pod.Status.StartTime = &now
	o := must(st.Create(pod, nil))
	st.Mutate(gvkPod, keyOf(o), func(o client.Object) {
		q := o.(*corev1.Pod)
		q.Status.Phase = corev1.PodRunning
		q.Status.StartTime = &now
	})
}

func (p *termProfile) op() {
	ch := p.ch
	st := p.s.store
	pick := func(gvk interface{ String() string }, l []client.Object) client.Object {
		if len(l) == 0 {
			return nil
		}
		return l[ch.Pick("term.pick", len(l))]
	}
	switch ch.Pick("term.op", 15) - 1 {
	case -1:
	case 0, 1, 2: // delete a NodeClaim (user, consolidation, ...)
		if o := pick(gvkNodeClaim, st.List(gvkNodeClaim)); o != nil {
			_ = st.Delete(o, DeleteOpts{}, nil)
			p.note("delete NodeClaim %s", o.GetName())
		}
	case 3: // delete a Node directly
		if o := pick(gvkNode, st.List(gvkNode)); o != nil {
			_ = st.Delete(o, DeleteOpts{}, nil)
			p.note("delete Node %s", o.GetName())
		}
	case 4: // PDB budget changes
		if o := pick(gvkPDB, st.List(gvkPDB)); o != nil {
			allowed := int32(ch.Pick("term.pdballowed", 3))
			st.Mutate(gvkPDB, keyOf(o), func(o client.Object) { o.(*policyv1.PodDisruptionBudget).Status.DisruptionsAllowed = allowed })
			p.note("pdb %s disruptionsAllowed=%d", o.GetName(), allowed)
		}
	case 5: // do-not-disrupt annotation toggles on a pod
		if o := pick(gvkPod, st.List(gvkPod)); o != nil {
			st.Mutate(gvkPod, keyOf(o), func(o client.Object) {
				q := o.(*corev1.Pod)
				if q.Annotations[v1.DoNotDisruptAnnotationKey] != "" {
					delete(q.Annotations, v1.DoNotDisruptAnnotationKey)
				} else {
					if q.Annotations == nil {
						q.Annotations = map[string]string{}
					}
					q.Annotations[v1.DoNotDisruptAnnotationKey] = "true"
				}
			})
			p.note("toggle do-not-disrupt on %s", o.GetName())
		}
	case 6: // the termination deadline moves (user edit) on a deleting NodeClaim
		var del []client.Object
		for _, o := range st.List(gvkNodeClaim) {
			if o.GetDeletionTimestamp() != nil {
				del = append(del, o)
			}
		}
		if o := pick(gvkNodeClaim, del); o != nil {
			d := time.Duration(ch.Pick("term.moveT", 40)-10) * time.Minute
			t := p.s.Now().Add(d).Format(time.RFC3339)
			st.Mutate(gvkNodeClaim, keyOf(o), func(o client.Object) {
				n := o.(*v1.NodeClaim)
				if n.Annotations == nil {
					n.Annotations = map[string]string{}
				}
				n.Annotations[v1.NodeClaimTerminationTimestampAnnotationKey] = t
			})
			p.note("termination deadline of %s moved to now%+v", o.GetName(), d)
		}
	case 7: // a pod finishes on its own
		if o := pick(gvkPod, st.List(gvkPod)); o != nil {
			st.Mutate(gvkPod, keyOf(o), func(o client.Object) { o.(*corev1.Pod).Status.Phase = corev1.PodSucceeded })
			p.note("pod %s succeeded", o.GetName())
		}
	case 8: // user deletes a pod (becomes terminating)
		if o := pick(gvkPod, st.List(gvkPod)); o != nil {
			_ = st.Delete(o, DeleteOpts{}, nil)
			p.note("user deletes pod %s", o.GetName())
		}
	case 9: // node goes NotReady / unhealthy condition
		if o := pick(gvkNode, st.List(gvkNode)); o != nil {
			bad := p.repair && ch.Pick("term.bad", 2) == 0
			ctype := corev1.NodeConditionType("BadNode")
			if bad && len(p.e.CP.Repair) > 1 {
				ctype = p.e.CP.Repair[ch.Pick("term.badtype", len(p.e.CP.Repair))].ConditionType
				// trouble clusters: a node that already reports one unhealthy condition often gets the other as well
				if ch.Pick("term.badsame", 2) == 1 {
					for _, x := range st.List(gvkNode) {
						have := map[corev1.NodeConditionType]bool{}
						for _, c := range x.(*corev1.Node).Status.Conditions {
							have[c.Type] = c.Status == corev1.ConditionTrue
						}
						if have["BadNode"] != have["BadDevice"] {
							o = x
							ctype = "BadNode"
							if have["BadNode"] {
								ctype = "BadDevice"
							}
							break
						}
					}
				}
			}
			first := false
			st.Mutate(gvkNode, keyOf(o), func(o client.Object) {
				n := o.(*corev1.Node)
				if bad {
					have := false
					for _, c := range n.Status.Conditions {
						if c.Type == ctype {
							have = true
						}
					}
					if !have {
						n.Status.Conditions = append(n.Status.Conditions, corev1.NodeCondition{Type: ctype, Status: corev1.ConditionTrue, LastTransitionTime: st.now()})
						first = true
					}
				} else {
					setNodeReady(n, false, st.now())
				}
			})
			p.note("node %s unhealthy (bad=%v)", o.GetName(), bad)
			// trouble often escalates: the other condition follows shortly before the first one's toleration runs out
			if first && len(p.e.CP.Repair) > 1 && ch.Pick("term.escalate", 2) == 1 {
				var mine, other cloudprovider.RepairPolicy
				for _, pol := range p.e.CP.Repair {
					if pol.ConditionType == ctype {
						mine = pol
					} else {
						other = pol
					}
				}
				if d := mine.TolerationDuration - other.TolerationDuration/2; d > 0 && other.ConditionType != "" {
					name, otype := o.GetName(), other.ConditionType
					p.s.AddTimer(actorUser, d, "second unhealthy condition on "+name, false, func() {
						st.Mutate(gvkNode, types.NamespacedName{Name: name}, func(o client.Object) {
							n := o.(*corev1.Node)
							for _, c := range n.Status.Conditions {
								if c.Type == otype {
									return
								}
							}
							n.Status.Conditions = append(n.Status.Conditions, corev1.NodeCondition{Type: otype, Status: corev1.ConditionTrue, LastTransitionTime: st.now()})
						})
						p.note("node %s also reports %s", name, otype)
					})
				}
			}
		}
	case 10: // instance vanishes
		live := p.e.CP.LiveInstances()
		if len(live) > 0 {
			inst := live[ch.Pick("term.pick", len(live))]
			inst.Terminating, inst.Gone, inst.GoneAt = true, true, p.s.Now()
			p.note("instance %s vanishes", inst.ID)
		}
	case 11: // clock jump
		if p.s.FaultsOn {
			d := time.Duration(1+ch.Pick("term.jump", 30)) * time.Minute
			p.s.Stat("fault.clock.jump")
			p.note("clock jump +%v", d)
			p.s.AdvanceTo(p.s.Now().Add(d))
		}
	case 13: // a new NodeClaim is launched while faults flow (launch failures, lost responses)
		pool := p.pools[ch.Pick("term.pool", len(p.pools))]
		p.nNC++
		nc := p.e.MakeNodeClaim(fmt.Sprintf("nc-%d", p.nNC), pool, ch)
		nc.Spec.StartupTaints = nil
		nc.Spec.TerminationGracePeriod = pool.Spec.Template.Spec.TerminationGracePeriod
		must(st.Create(nc, nil))
		p.note("create NodeClaim %s", nc.Name)
	case 12: // a late pod lands on a node (scheduler had not seen the taint)
		if o := pick(gvkNode, st.List(gvkNode)); o != nil {
			p.addPod(o.(*corev1.Node))
			p.note("late pod on %s", o.GetName())
		}
	}
}

// ---------- independent definitions (from the property / documentation, not from pkg/utils/pod)

func toleratesDisruption(pod *corev1.Pod) bool {
	t := v1.DisruptedNoScheduleTaint
	for _, tol := range pod.Spec.Tolerations {
		if tolerates(tol, t) {
			return true
		}
	}
	return false
}

// tolerates: Kubernetes toleration matching (own implementation, no numeric operators generated)
func tolerates(tol corev1.Toleration, t corev1.Taint) bool {
	if tol.Effect != "" && tol.Effect != t.Effect {
		return false
	}
	if tol.Key != "" && tol.Key != t.Key {
		return false
	}
	switch tol.Operator {
	case corev1.TolerationOpExists:
		return true
	case "", corev1.TolerationOpEqual:
		return tol.Key != "" && tol.Value == t.Value
	}
	return false
}

func ownedBy(pod *corev1.Pod, kind string) bool {
	for _, o := range pod.OwnerReferences {
		if o.Kind == kind {
			return true
		}
	}
	return false
}

func podTerminal(pod *corev1.Pod) bool {
	return pod.Status.Phase == corev1.PodSucceeded || pod.Status.Phase == corev1.PodFailed
}

func dndActive(pod *corev1.Pod, now time.Time) bool {
	v, ok := pod.Annotations[v1.DoNotDisruptAnnotationKey]
	if !ok {
		return false
	}
	if v == "true" {
		return true
	}
	d, err := time.ParseDuration(v)
	if err != nil || d <= 0 {
		return false
	}
	if pod.Status.StartTime == nil {
		return true
	}
	return now.Sub(pod.Status.StartTime.Time) < d
}

// drainable: Karpenter can drain it (not tolerating the disruption taint, not a static pod, not stuck terminating)
func drainable(pod *corev1.Pod, now time.Time) bool {
	if toleratesDisruption(pod) || ownedBy(pod, "Node") {
		return false
	}
	if pod.DeletionTimestamp != nil && now.Sub(pod.DeletionTimestamp.Time) > time.Minute {
		return false
	}
	return true
}

func podTier(pod *corev1.Pod) int {
	crit := pod.Spec.PriorityClassName == "system-cluster-critical" || pod.Spec.PriorityClassName == "system-node-critical"
	ds := ownedBy(pod, "DaemonSet")
	switch {
	case !crit && !ds:
		return 0
	case !crit && ds:
		return 1
	case crit && !ds:
		return 2
	}
	return 3
}

// pastDeadline: the pod's own grace period would run past the node deadline
func pastDeadline(pod *corev1.Pod, T *time.Time, now time.Time) bool {
	if T == nil {
		return false
	}
	if pod.DeletionTimestamp != nil {
		return pod.DeletionTimestamp.After(*T)
	}
	if pod.Spec.TerminationGracePeriodSeconds == nil {
		return false
	}
	return now.After(T.Add(-time.Duration(*pod.Spec.TerminationGracePeriodSeconds) * time.Second))
}

func deadlineOf(nc *v1.NodeClaim) *time.Time {
	if nc == nil {
		return nil
	}
	v, ok := nc.Annotations[v1.NodeClaimTerminationTimestampAnnotationKey]
	if !ok {
		return nil
	}
	t, err := time.Parse(time.RFC3339, v)
	if err != nil {
		return nil
	}
	return &t
}

// ---------- observation

func (p *termProfile) observe() {
	p.e.FeedChannelQueuesLevel(p.wasIn, func(pod *corev1.Pod) { p.onEnqueued(pod) })
}

// onEnqueued: the pod was newly added to the eviction queue by the task that ran last (a drain pass).
func (p *termProfile) onEnqueued(pod *corev1.Pod) {
	s := p.s
	t := s.LastRun
	s.Probe("evq-enqueue")
	delete(p.podMinT, pod.UID)
	delete(p.podEnqT, pod.UID)
	// until the enqueue is attributed to a drain pass (and its deadline known) no later pass may stand in for it
	p.podUnk[pod.UID] = true
	if t == nil || t.Ctrl.Name != "node.termination" {
		return
	}
	// C10 tier order, judged on the pod list the drain pass itself received
	var list []*corev1.Pod
	for i := len(t.Reads) - 1; i >= 0; i-- {
		r := t.Reads[i]
		if r.Verb == "list" && r.Kind == "Pod" && strings.Contains(r.Key, "spec.nodeName="+pod.Spec.NodeName) && r.Err == nil {
			for _, o := range r.Objs {
				list = append(list, o.(*corev1.Pod))
			}
			break
		}
	}
	var T *time.Time
	for _, r := range t.Reads {
		if r.Kind == "NodeClaim" && len(r.Objs) > 0 {
			T = deadlineOf(r.Objs[0].(*v1.NodeClaim))
		}
	}
	now := s.Now()
	// judge the pod as the drain pass saw it (read-set rule), not as it is on the server by now
	seen := false
	for _, q := range list {
		if q.UID == pod.UID {
			pod, seen = q, true
		}
	}
	if !seen {
		return
	}
	p.podMinT[pod.UID] = T
	p.podEnqT[pod.UID] = T
	delete(p.podUnk, pod.UID)
	if pastDeadline(pod, T, now) || pastDeadline(pod, T, t.Start) {
		s.Probe("evq-enqueue-forced")
		return
	}
	my := podTier(pod)
	for _, q := range list {
		if q.UID == pod.UID || podTerminal(q) || !drainable(q, now) || pastDeadline(q, T, now) {
			continue
		}
		if podTier(q) < my {
			s.Violate("C10", "tier-order", "pod %s (tier %d) was queued for eviction while pod %s of tier %d on node %s still awaits eviction in the same drain pass", pod.Name, my, q.Name, podTier(q), pod.Spec.NodeName)
			return
		}
	}
}

func (p *termProfile) nodeClaimForNode(nodeName string) *v1.NodeClaim {
	st := p.s.store
	n := st.Get(gvkNode, types.NamespacedName{Name: nodeName})
	if n == nil {
		return nil
	}
	pid := n.(*corev1.Node).Spec.ProviderID
	for _, o := range st.List(gvkNodeClaim) {
		if o.(*v1.NodeClaim).Status.ProviderID == pid && pid != "" {
			return o.(*v1.NodeClaim)
		}
	}
	return nil
}

func (p *termProfile) onWrite(ev WatchEvent, old client.Object, by *Task) {
	switch ev.GVK {
	case gvkNodeClaim:
		if ev.Type != EvDeleted {
			if deadlineOf(ev.Obj.(*v1.NodeClaim)) != nil {
				p.hadT[ev.Obj.GetName()] = true
			}
		}
		if by != nil && old != nil && hasFinalizer(old, v1.TerminationFinalizer) && (ev.Type == EvDeleted || !hasFinalizer(ev.Obj, v1.TerminationFinalizer)) {
			checkNodeClaimFinalized(p.s, p.e.CP, old.(*v1.NodeClaim), by)
		}
	case gvkNode:
		if by != nil && old != nil && hasFinalizer(old, v1.TerminationFinalizer) && (ev.Type == EvDeleted || !hasFinalizer(ev.Obj, v1.TerminationFinalizer)) {
			p.checkNodeFinalized(old.(*corev1.Node), by)
		}
	}
}

func firstRead(t *Task, verb, kind, keyPart string) *ReadRec {
	for i := range t.Reads {
		r := &t.Reads[i]
		if r.Verb == verb && r.Kind == kind && strings.Contains(r.Key, keyPart) {
			return r
		}
	}
	return nil
}

func lastRead(t *Task, verb, kind, keyPart string) *ReadRec {
	for i := len(t.Reads) - 1; i >= 0; i-- {
		r := &t.Reads[i]
		if r.Verb == verb && r.Kind == kind && strings.Contains(r.Key, keyPart) {
			return r
		}
	}
	return nil
}

func (p *termProfile) checkNodeFinalized(node *corev1.Node, t *Task) {
	s := p.s
	s.Probe("node-finalized")
	now := s.Now()
	if t.Ctrl.Name != "node.termination" {
		s.Violate("C09", "finalizer-removed-by-other", "termination finalizer of node %s removed by %s", node.Name, t.Name())
		return
	}
	// does the node have a NodeClaim as far as the task knows?
	ncRead := lastRead(t, "list", "NodeClaim", "status.providerID="+node.Spec.ProviderID)
	if ncRead == nil || ncRead.Err != nil || len(ncRead.Objs) != 1 {
		s.Probe("node-finalized-without-nodeclaim")
		return
	}
	nc := ncRead.Objs[0].(*v1.NodeClaim)
	inst := p.e.CP.Instances[node.Spec.ProviderID]
	if inst != nil {
		p.e.CP.settle(inst)
	}
	// fast path: node not ready (as read) and provider reported NotFound to this task
	var nodeRead *corev1.Node
	if r := lastRead(t, "get", "Node", "/"+node.Name); r != nil && len(r.Objs) > 0 {
		nodeRead = r.Objs[0].(*corev1.Node)
	}
	gotNotFound := false
	for _, r := range t.Reads {
		if r.Verb == "cp.get" && r.Err != nil && cloudprovider.IsNodeClaimNotFoundError(r.Err) {
			gotNotFound = true
		}
	}
	for _, w := range t.Writes {
		if w.Seam == "cp" && w.Verb == "delete" && w.Err != nil && cloudprovider.IsNodeClaimNotFoundError(w.Err) {
			gotNotFound = true
		}
	}
	if inst != nil && !inst.Gone {
		s.Violate("C09", "node-finalized-instance-alive", "termination finalizer of node %s removed while its instance %s still exists at the provider (terminating=%v)", node.Name, inst.ID, inst.Terminating)
		return
	}
	if !gotNotFound {
		s.Violate("C09", "node-finalized-unconfirmed", "termination finalizer of node %s removed although the provider never answered NotFound to %s", node.Name, t.Name())
		return
	}
	if nodeRead != nil && !nodeIsReady(nodeRead) {
		// the documented fast path when the node is not ready and the instance is already gone
		fast := true
		for _, w := range t.Writes {
			if w.Seam == "cp" && w.Verb == "delete" {
				fast = false
			}
		}
		if fast {
			s.Probe("node-finalized-fast-path")
			return
		}
	}
	// ordinary path: cordoned, drained, detached
	tainted := false
	for _, tt := range node.Spec.Taints {
		if tt.MatchTaint(&v1.DisruptedNoScheduleTaint) {
			tainted = true
		}
	}
	if !tainted {
		s.Violate("C09", "node-finalized-uncordoned", "termination finalizer of node %s removed while the node does not carry the disruption taint", node.Name)
	}
	T := deadlineOf(nc)
	// the drain decision of this reconcile is taken on its first pod listing (Terminator.Drain); the later listing
	// belongs to the volume-attachment step, and a pod bound to the node after the drain decision is not part of it
	if pr := firstRead(t, "list", "Pod", "spec.nodeName="+node.Name); pr != nil && pr.Err == nil {
		for _, o := range pr.Objs {
			q := o.(*corev1.Pod)
			if podTerminal(q) || !drainable(q, pr.At) {
				continue
			}
			s.Violate("C09", "node-finalized-undrained", "termination finalizer of node %s removed while drainable pod %s (terminating=%v) is in the pod list the task's drain step read", node.Name, q.Name, q.DeletionTimestamp != nil)
			break
		}
	} else {
		s.Violate("C09", "node-finalized-undrained", "termination finalizer of node %s removed without a successful pod listing for the node", node.Name)
	}
	if vr := lastRead(t, "list", "VolumeAttachment", "spec.nodeName="+node.Name); vr != nil && vr.Err == nil {
		if len(vr.Objs) > 0 && (T == nil || !now.After(*T)) {
			// attachments of pods that cannot be drained do not block
			blocking := p.blockingAttachments(t, node, vr, now)
			if len(blocking) > 0 {
				s.Violate("C09", "node-finalized-attached", "termination finalizer of node %s removed while volume attachment %s of a drainable pod exists and the termination deadline has not passed", node.Name, blocking[0])
			}
		}
	} else {
		s.Violate("C09", "node-finalized-attached", "termination finalizer of node %s removed without a successful volume attachment listing", node.Name)
	}
}

func (p *termProfile) blockingAttachments(t *Task, node *corev1.Node, vr *ReadRec, now time.Time) []string {
	st := p.s.store
	skip := map[string]bool{}
	if pr := lastRead(t, "list", "Pod", "spec.nodeName="+node.Name); pr != nil {
		for _, o := range pr.Objs {
			q := o.(*corev1.Pod)
			if drainable(q, now) {
				continue
			}
			for _, v := range q.Spec.Volumes {
				if v.PersistentVolumeClaim == nil {
					continue
				}
				if pvc := st.Get(gvkPVC, types.NamespacedName{Namespace: q.Namespace, Name: v.PersistentVolumeClaim.ClaimName}); pvc != nil {
					skip[pvc.(*corev1.PersistentVolumeClaim).Spec.VolumeName] = true
				}
			}
		}
	}
	var out []string
	for _, o := range vr.Objs {
		va := o.(*storagev1.VolumeAttachment)
		if va.Spec.Source.PersistentVolumeName == nil || skip[*va.Spec.Source.PersistentVolumeName] {
			continue
		}
		out = append(out, va.Name)
	}
	return out
}

func checkNodeClaimFinalized(s *Sim, cp *Provider, nc *v1.NodeClaim, t *Task) {
	s.Probe("nodeclaim-finalized")
	if t.Ctrl.Name != "nodeclaim.lifecycle" {
		s.Violate("C09", "finalizer-removed-by-other", "termination finalizer of NodeClaim %s removed by %s", nc.Name, t.Name())
		return
	}
	var read *v1.NodeClaim
	for _, r := range t.Reads {
		if r.Kind == "NodeClaim" && r.Verb == "get" && len(r.Objs) > 0 {
			read = r.Objs[0].(*v1.NodeClaim)
			break
		}
	}
	if read != nil && condTrue(read, v1.ConditionTypeRegistered) {
		nr := lastRead(t, "list", "Node", "spec.providerID="+read.Status.ProviderID)
		if nr == nil || nr.Err != nil {
			s.Violate("C09", "nodeclaim-finalized-nodes-unknown", "finalizer of registered NodeClaim %s removed without a successful Node lookup", nc.Name)
		} else if len(nr.Objs) > 0 {
			s.Violate("C09", "nodeclaim-finalized-node-exists", "finalizer of registered NodeClaim %s removed while Node %s was in the task's node list", nc.Name, nr.Objs[0].(*corev1.Node).Name)
		}
	}
	// no orphan: every instance Karpenter knows it created for this NodeClaim must be gone
	for _, id := range cp.Order {
		inst := cp.Instances[id]
		if inst.UID != nc.UID {
			continue
		}
		cp.settle(inst)
		if inst.Gone {
			continue
		}
		if !inst.AckedCreate {
			s.Probe("unacked-instance-left")
			continue
		}
		if inst.CreatedInc != s.inc && nc.Status.ProviderID != inst.ID {
			// created by an incarnation that crashed before persisting it (excluded by C14's wording)
			s.Probe("pre-crash-instance-left")
			continue
		}
		s.Violate("C09", "orphan-instance", "finalizer of NodeClaim %s removed while instance %s, whose creation Karpenter acknowledged (provider id recorded: %v), still exists and is not terminating=%v", nc.Name, inst.ID, nc.Status.ProviderID == inst.ID, inst.Terminating)
	}
}

func (p *termProfile) onTaskDone(t *Task) {
	s := p.s
	checkReaperTask(s, t)
	switch t.Ctrl.Name {
	case "node.termination":
		if t.Panic != nil {
			s.Violate("C09", "controller-crash", "node.termination panicked: %v\n%s", t.Panic, firstLines(t.PanicSt, 10))
		}
		// remember the earliest deadline a drain pass worked with
		var node string
		for _, r := range t.Reads {
			if r.Kind == "Node" && r.Verb == "get" && len(r.Objs) > 0 {
				node = r.Objs[0].(*corev1.Node).Name
			}
		}
		for _, r := range t.Reads {
			if r.Kind == "NodeClaim" && len(r.Objs) > 0 {
				if T := deadlineOf(r.Objs[0].(*v1.NodeClaim)); T != nil && node != "" {
					if cur, ok := p.minT[node]; !ok || T.Before(cur) {
						p.minT[node] = *T
					}
				}
			}
		}
		p.tightenQueued(t, node)
		// Karpenter must not delete pods from the drain pass itself
		for _, w := range t.Writes {
			if w.Kind == "Pod" && strings.HasPrefix(w.Verb, "delete") {
				s.Violate("C10", "direct-delete", "node.termination deleted pod %s directly", w.Key)
			}
		}
	case "eviction-queue":
		if t.Panic != nil {
			s.Violate("C10", "controller-crash", "eviction-queue panicked: %v", t.Panic)
		}
		p.checkEvictionTask(t)
	case "node.health":
		p.checkRepairTask(t)
	}
}

// tightenQueued: a later drain pass re-adds the pods it selects (past-deadline pods of every tier and
// the lowest waiting tier); for those still enqueued the queue keeps the earlier deadline.
func (p *termProfile) tightenQueued(t *Task, node string) {
	if node == "" {
		return
	}
	var T *time.Time
	for _, r := range t.Reads {
		if r.Kind == "NodeClaim" && len(r.Objs) > 0 {
			T = deadlineOf(r.Objs[0].(*v1.NodeClaim))
		}
	}
	pr := lastRead(t, "list", "Pod", "spec.nodeName="+node)
	if T == nil || pr == nil || pr.Err != nil {
		return
	}
	// Which of the enqueued pods this pass re-added (and so possibly tightened) depends on tiers and clock positions;
	// the oracle only needs a lower bound of the stored deadline, so every enqueued pod the pass saw on the node counts
	// as possibly re-added under this pass's deadline.
	for _, o := range pr.Objs {
		q := o.(*corev1.Pod)
		if !p.wasIn[q.UID] || p.podUnk[q.UID] {
			continue
		}
		if cur := p.podMinT[q.UID]; cur == nil || T.Before(*cur) {
			p.podMinT[q.UID] = T
		}
	}
}

func (p *termProfile) checkEvictionTask(t *Task) {
	s := p.s
	var pod *corev1.Pod
	for _, r := range t.Reads {
		if r.Kind == "Pod" && r.Verb == "get" && len(r.Objs) > 0 {
			pod = r.Objs[0].(*corev1.Pod)
			break
		}
	}
	if pod == nil {
		return
	}
	for _, w := range t.Writes {
		if w.Kind != "Pod" || w.Fault == FErrBefore {
			continue
		}
		at := w.At
		switch {
		case w.Verb == "evict":
			s.Probe("evict")
			if w.Err == nil {
				p.evicted[pod.UID] = true
			}
			// "a pod queued under one deadline is never later handled under a later one": the queue keeps the earliest
			// deadline, so once the pod's grace no longer fits before the deadline it was enqueued under, the queue deletes
			// it directly; an eviction attempt decided after that instant means a later (or no) deadline was applied
			if T0 := p.podEnqT[pod.UID]; T0 != nil && p.wasIn[pod.UID] && pod.DeletionTimestamp == nil && pastDeadline(pod, T0, t.Start) {
				s.Violate("C10", "handled-under-later-deadline", "pod %s was enqueued under node deadline %s; at %s its grace period no longer fits before that deadline, yet the eviction queue still tried to evict it instead of deleting it", pod.Name, T0.Format(time.RFC3339), t.Start.Format(time.RFC3339))
			}
			if dndActive(pod, at) {
				s.Violate("C10", "evicted-do-not-disrupt", "pod %s evicted although the version the queue read carries an active do-not-disrupt annotation (%q)", pod.Name, pod.Annotations[v1.DoNotDisruptAnnotationKey])
			}
			if ownedBy(pod, "Node") {
				s.Violate("C10", "evicted-static-pod", "static pod %s evicted", pod.Name)
			}
			if toleratesDisruption(pod) {
				s.Violate("C10", "evicted-tolerating-pod", "pod %s tolerates the disruption taint but was evicted", pod.Name)
			}
		case strings.HasPrefix(w.Verb, "delete"):
			s.Probe("force-delete")
			nc := p.nodeClaimForNode(pod.Spec.NodeName)
			var grace *int64
			if g, ok := t.Notes["lastDeleteGrace"].(*int64); ok {
				grace = g
			}
			// only pods that drain may be removed at all: static pods and pods tolerating the disruption taint stay,
			// whatever the deadline
			if ownedBy(pod, "Node") || toleratesDisruption(pod) {
				s.Violate("C10", "deleted-non-drainable", "pod %s (static=%v, tolerates the disruption taint=%v) was deleted directly by the eviction queue", pod.Name, ownedBy(pod, "Node"), toleratesDisruption(pod))
			}
			if grace == nil || *grace < 1 {
				s.Violate("C10", "zero-grace-delete", "pod %s deleted directly with grace period %v", pod.Name, fmtGrace(grace))
			}
			if nc != nil && !p.hadT[nc.Name] {
				s.Violate("C10", "delete-without-deadline", "pod %s deleted directly although NodeClaim %s never had a termination deadline", pod.Name, nc.Name)
				continue
			}
			// the earliest deadline this pod has certainly been queued under since it was (re-)enqueued
			T := p.podMinT[pod.UID]
			if T == nil {
				s.Probe("force-delete-unattributed")
				continue
			}
			if !pastDeadline(pod, T, at) {
				own := "nil"
				if pod.Spec.TerminationGracePeriodSeconds != nil {
					own = fmt.Sprint(*pod.Spec.TerminationGracePeriodSeconds, "s")
				}
				s.Violate("C10", "delete-too-early", "pod %s (grace %s, terminating=%v) deleted directly at %s although the earliest node deadline is %s", pod.Name, own, pod.DeletionTimestamp != nil, at.Format(time.RFC3339), T.Format(time.RFC3339))
			}
			// upper bound of the stored deadline: the one of the (attributed) pass that enqueued the pod; the queue only
			// ever keeps an earlier one (podMinT above is a *lower* bound and must not be used here)
			if T0 := p.podEnqT[pod.UID]; T0 != nil && grace != nil && *grace > 1 {
				// the grace period is computed some time before the call is issued; the reconcile's start bounds it
				implied := t.Start.Add(time.Duration(*grace) * time.Second)
				if implied.After(T0.Add(time.Second)) {
					s.Violate("C10", "deadline-extended", "pod %s force-deleted with grace %ds, i.e. until %s, later than the deadline %s it was enqueued under", pod.Name, *grace, implied.Format(time.RFC3339), T0.Format(time.RFC3339))
				}
			}
		}
	}
}

func fmtGrace(g *int64) string {
	if g == nil {
		return "unset"
	}
	return fmt.Sprint(*g)
}

func (p *termProfile) checkRepairTask(t *Task) {
	s := p.s
	for _, w := range t.Writes {
		if w.Kind != "NodeClaim" || !strings.HasPrefix(w.Verb, "delete") {
			continue
		}
		s.Probe("repair-delete")
		var node *corev1.Node
		for _, r := range t.Reads {
			if r.Kind == "Node" && r.Verb == "get" && len(r.Objs) > 0 {
				node = r.Objs[0].(*corev1.Node)
				break
			}
		}
		if node == nil {
			continue
		}
		ok := false
		for _, pol := range p.e.CP.Repair {
			for _, c := range node.Status.Conditions {
				if c.Type == pol.ConditionType && c.Status == pol.ConditionStatus && !w.At.Before(c.LastTransitionTime.Add(pol.TolerationDuration)) {
					ok = true
				}
			}
		}
		if !ok {
			s.Violate("C16", "repair-early", "node repair deleted the NodeClaim of node %s before any unhealthy condition had lasted its toleration", node.Name)
		}
		// 20% breaker on the node list the task received
		if lr := lastRead(t, "list", "Node", ""); lr != nil && lr.Err == nil {
			total, bad := len(lr.Objs), 0
			for _, o := range lr.Objs {
				n := o.(*corev1.Node)
				unhealthy := false
				for _, pol := range p.e.CP.Repair {
					for _, c := range n.Status.Conditions {
						if c.Type == pol.ConditionType && c.Status == pol.ConditionStatus {
							unhealthy = true
						}
					}
				}
				if unhealthy {
					bad++
				}
			}
			thr := (total*20 + 99) / 100
			if bad > thr {
				s.Violate("C16", "repair-breaker", "node repair deleted a NodeClaim while %d of %d nodes of the pool are unhealthy (allowed: %d = 20%% rounded up)", bad, total, thr)
			}
		}
	}
}

func (p *termProfile) finalChecks() {
	s := p.s
	// C09 end of run: every live instance belongs to a live NodeClaim
	live := map[types.UID]bool{}
	for _, o := range s.store.List(gvkNodeClaim) {
		live[o.GetUID()] = true
	}
	ids := append([]string(nil), p.e.CP.Order...)
	sort.Strings(ids)
	for _, id := range ids {
		inst := p.e.CP.Instances[id]
		p.e.CP.settle(inst)
		if inst.Gone || live[inst.UID] {
			continue
		}
		if !inst.AckedCreate || inst.CreatedInc != s.inc {
			s.Probe("leftover-instance-excluded")
			continue
		}
		if inst.Terminating {
			continue
		}
		s.Violate("C09", "orphan-instance", "end of run: instance %s (NodeClaim %s, creation acknowledged in this incarnation) exists although its NodeClaim is gone", inst.ID, inst.NodeClaim)
	}
}

var _ = labels.Everything
var _ *terminator.Queue
