package sim

// The controller manager stub: per-controller work queues with de-duplication, never two
// reconciles of one key at once, requeue timers, and event routing that mirrors each
// controller's Register() (DESIGN 3.4).

import (
	"context"
	"fmt"
	"time"

	"k8s.io/apimachinery/pkg/runtime/schema"
	"k8s.io/client-go/util/workqueue"
	"sigs.k8s.io/controller-runtime/pkg/client"
	"sigs.k8s.io/controller-runtime/pkg/event"
	"sigs.k8s.io/controller-runtime/pkg/handler"
	"sigs.k8s.io/controller-runtime/pkg/predicate"
	"sigs.k8s.io/controller-runtime/pkg/reconcile"
)

type Watch struct {
	Obj     client.Object
	gvk     schema.GroupVersionKind
	Preds   []predicate.Predicate
	Handler handler.EventHandler // nil => enqueue the object's own key
	// OnlyCreate etc. are expressed through Preds
}

type Ctrl struct {
	Name        string
	Reconcile   func(ctx context.Context, req reconcile.Request) (reconcile.Result, error)
	Singleton   bool
	Watches     []Watch
	MaxConc     int
	BaseBackoff time.Duration
	MaxBackoff  time.Duration
	WeightMul   int  // start weight multiplier (default 1)
	UnderTest   bool // fault-eligible
	Manual      bool // never started by the manager loop on events (driven by profile)

	id       int
	pending  []reconcile.Request
	inPend   map[reconcile.Request]bool
	active   map[reconcile.Request]*Task
	dirty    map[reconcile.Request]bool
	failures map[reconcile.Request]int
	waiting  map[reconcile.Request]*Timer
	Runs     int
}

func (c *Ctrl) weight(base int) int {
	if c.WeightMul > 0 {
		return base * c.WeightMul
	}
	return base
}

type Manager struct {
	sim         *Sim
	Ctrls       []*Ctrl
	byName      map[string]*Ctrl
	onTaskStart []func(*Task)
	OnDeliver   []func(WatchEvent)
	routeCtx    context.Context
}

func NewManager(s *Sim) *Manager {
	return &Manager{sim: s, byName: map[string]*Ctrl{}}
}

func (m *Manager) Add(c *Ctrl) *Ctrl {
	c.id = -(len(m.Ctrls) + 1)
	c.inPend = map[reconcile.Request]bool{}
	c.active = map[reconcile.Request]*Task{}
	c.dirty = map[reconcile.Request]bool{}
	c.failures = map[reconcile.Request]int{}
	c.waiting = map[reconcile.Request]*Timer{}
	if c.MaxConc == 0 {
		c.MaxConc = 10
	}
	if c.Singleton {
		c.MaxConc = 1
	}
	if c.BaseBackoff == 0 {
		c.BaseBackoff = 5 * time.Millisecond
	}
	if c.MaxBackoff == 0 {
		c.MaxBackoff = 1000 * time.Second
	}
	for i := range c.Watches {
		c.Watches[i].gvk = m.sim.store.GVK(c.Watches[i].Obj)
	}
	m.Ctrls = append(m.Ctrls, c)
	m.byName[c.Name] = c
	return c
}

func (m *Manager) Get(name string) *Ctrl { return m.byName[name] }

func (m *Manager) OnTaskStart(f func(*Task)) { m.onTaskStart = append(m.onTaskStart, f) }

func (c *Ctrl) Enqueue(req reconcile.Request) {
	if c.active[req] != nil {
		c.dirty[req] = true
		return
	}
	if c.inPend[req] {
		return
	}
	c.inPend[req] = true
	c.pending = append(c.pending, req)
}

func (m *Manager) EnqueueAfter(c *Ctrl, req reconcile.Request, d time.Duration) {
	m.enqueueAfter(c, req, d, "requeue ")
}

func (m *Manager) enqueueAfter(c *Ctrl, req reconcile.Request, d time.Duration, kind string) {
	if d <= 0 {
		c.Enqueue(req)
		return
	}
	// like client-go's delaying queue: one waiting entry per item, the earliest deadline wins
	at := m.sim.Now().Add(d)
	if old := c.waiting[req]; old != nil && !old.dead {
		if !at.Before(old.At) {
			return
		}
		m.sim.StopTimer(old)
	}
	c.waiting[req] = m.sim.AddTimer(c.id, d, kind+c.Name+" "+req.String(), false, func() { delete(c.waiting, req); c.Enqueue(req) })
}

type ready struct {
	c   *Ctrl
	req reconcile.Request
}

func (m *Manager) Ready() []ready {
	var out []ready
	for _, c := range m.Ctrls {
		if c.Manual {
			continue
		}
		n := len(c.active)
		for _, r := range c.pending {
			if n >= c.MaxConc {
				break
			}
			out = append(out, ready{c, r})
			n++
		}
	}
	return out
}

func (m *Manager) Start(c *Ctrl, req reconcile.Request) *Task {
	for i, r := range c.pending {
		if r == req {
			c.pending = append(c.pending[:i], c.pending[i+1:]...)
			break
		}
	}
	delete(c.inPend, req)
	t := m.sim.StartTask(c, req)
	c.active[req] = t
	c.Runs++
	m.sim.Stat("task." + c.Name)
	return t
}

func (m *Manager) taskDone(t *Task) {
	c := t.Ctrl
	if c.active == nil {
		return
	}
	delete(c.active, t.Req)
	req := t.Req
	switch {
	case t.Panic != nil || t.Err != nil:
		c.failures[req]++
		d := c.BaseBackoff << uint(min(c.failures[req]-1, 30))
		if d > c.MaxBackoff || d <= 0 {
			d = c.MaxBackoff
		}
		m.sim.Logf("done %s err=%v requeue=%v", t.Name(), errStr(t), d)
		m.enqueueAfter(c, req, d, "retry ")
	case t.Result.RequeueAfter > 0:
		delete(c.failures, req)
		m.sim.Logf("done %s requeueAfter=%v", t.Name(), t.Result.RequeueAfter)
		m.EnqueueAfter(c, req, t.Result.RequeueAfter)
	case t.Result.Requeue: //nolint:staticcheck
		c.failures[req]++
		d := c.BaseBackoff << uint(min(c.failures[req]-1, 30))
		if d > c.MaxBackoff || d <= 0 {
			d = c.MaxBackoff
		}
		m.sim.Logf("done %s requeue=%v", t.Name(), d)
		m.enqueueAfter(c, req, d, "retry ")
	default:
		delete(c.failures, req)
		m.sim.Logf("done %s", t.Name())
	}
	if c.dirty[req] {
		delete(c.dirty, req)
		c.Enqueue(req)
	}
}

func errStr(t *Task) string {
	if t.Panic != nil {
		return fmt.Sprintf("panic: %v", t.Panic)
	}
	if t.Err != nil {
		s := t.Err.Error()
		if len(s) > 120 {
			s = s[:120]
		}
		return s
	}
	return ""
}

// Deliver applies the next event of the kind to the cache and routes it.
func (m *Manager) Deliver(gvk schema.GroupVersionKind) {
	ev, old := m.sim.cache.Deliver(gvk)
	m.sim.Stat("deliver")
	for _, f := range m.OnDeliver {
		f(ev)
	}
	m.Route(ev, old)
}

func (m *Manager) Route(ev WatchEvent, old client.Object) {
	ctx := m.sim.incCtx
	for _, c := range m.Ctrls {
		for _, w := range c.Watches {
			if w.gvk != ev.GVK {
				continue
			}
			q := &capQueue{}
			m.dispatch(ctx, w, ev, old, q)
			for _, it := range q.items {
				if it.after > 0 {
					m.EnqueueAfter(c, it.req, it.after)
				} else {
					c.Enqueue(it.req)
				}
			}
		}
	}
}

func (m *Manager) dispatch(ctx context.Context, w Watch, ev WatchEvent, old client.Object, q *capQueue) {
	h := w.Handler
	if h == nil {
		h = &handler.EnqueueRequestForObject{}
	}
	switch {
	case ev.Type == EvAdded || (ev.Type == EvModified && old == nil):
		e := event.CreateEvent{Object: ev.Obj}
		for _, p := range w.Preds {
			if !p.Create(e) {
				return
			}
		}
		h.Create(ctx, e, q)
	case ev.Type == EvModified:
		e := event.UpdateEvent{ObjectOld: old, ObjectNew: ev.Obj}
		for _, p := range w.Preds {
			if !p.Update(e) {
				return
			}
		}
		h.Update(ctx, e, q)
	case ev.Type == EvDeleted:
		o := ev.Obj
		e := event.DeleteEvent{Object: o}
		for _, p := range w.Preds {
			if !p.Delete(e) {
				return
			}
		}
		h.Delete(ctx, e, q)
	}
}

// Resync re-enqueues every cached object of every watched kind as a Create event (start-up
// and periodic resync).
func (m *Manager) Resync() {
	for _, c := range m.Ctrls {
		if c.Singleton {
			c.Enqueue(reconcile.Request{})
		}
		for _, w := range c.Watches {
			for _, o := range m.sim.cache.List(w.gvk) {
				q := &capQueue{}
				m.dispatch(m.sim.incCtx, w, WatchEvent{Type: EvAdded, GVK: w.gvk, Key: keyOf(o), Obj: o}, nil, q)
				for _, it := range q.items {
					if it.after > 0 {
						m.EnqueueAfter(c, it.req, it.after)
					} else {
						c.Enqueue(it.req)
					}
				}
			}
		}
	}
}

// ---- capturing queue handed to the repo's real event handlers

type capItem struct {
	req   reconcile.Request
	after time.Duration
}

type capQueue struct{ items []capItem }

var _ workqueue.TypedRateLimitingInterface[reconcile.Request] = (*capQueue)(nil)

func (q *capQueue) Add(item reconcile.Request) { q.items = append(q.items, capItem{req: item}) }
func (q *capQueue) Len() int                   { return len(q.items) }
func (q *capQueue) Get() (reconcile.Request, bool) {
	return reconcile.Request{}, true
}
func (q *capQueue) Done(reconcile.Request) {}
func (q *capQueue) ShutDown()              {}
func (q *capQueue) ShutDownWithDrain()     {}
func (q *capQueue) ShuttingDown() bool     { return false }
func (q *capQueue) AddAfter(item reconcile.Request, d time.Duration) {
	q.items = append(q.items, capItem{req: item, after: d})
}
func (q *capQueue) AddRateLimited(item reconcile.Request) { q.Add(item) }
func (q *capQueue) Forget(reconcile.Request)              {}
func (q *capQueue) NumRequeues(reconcile.Request) int     { return 0 }
