package sim

// Env wires the real Karpenter controllers to the simulator's seams. Build() is called once per
// incarnation (process start / restart): every in-memory structure is created from its
// constructor, exactly as operator start-up does.

import (
	"context"
	"fmt"
	"os"
	"reflect"
	"time"
	"unsafe"

	gocache "github.com/patrickmn/go-cache"

	"github.com/awslabs/operatorpkg/reconciler"
	"github.com/awslabs/operatorpkg/singleton"
	appsv1 "k8s.io/api/apps/v1"
	corev1 "k8s.io/api/core/v1"
	storagev1 "k8s.io/api/storage/v1"
	"k8s.io/client-go/kubernetes/scheme"
	"k8s.io/client-go/util/workqueue"
	"sigs.k8s.io/controller-runtime/pkg/client"
	"sigs.k8s.io/controller-runtime/pkg/event"
	"sigs.k8s.io/controller-runtime/pkg/handler"
	"sigs.k8s.io/controller-runtime/pkg/predicate"
	"sigs.k8s.io/controller-runtime/pkg/reconcile"

	v1 "sigs.k8s.io/karpenter/pkg/apis/v1"
	"sigs.k8s.io/karpenter/pkg/controllers/state"
	"sigs.k8s.io/karpenter/pkg/controllers/state/informer"
	"sigs.k8s.io/karpenter/pkg/controllers/state/nodeclaimgc"
	"sigs.k8s.io/karpenter/pkg/events"
	"sigs.k8s.io/karpenter/pkg/operator/options"
	"sigs.k8s.io/karpenter/pkg/state/cost"
	"sigs.k8s.io/karpenter/pkg/test/v1alpha1"
	nodeclaimutils "sigs.k8s.io/karpenter/pkg/utils/nodeclaim"
	nodepoolutils "sigs.k8s.io/karpenter/pkg/utils/nodepool"
)

// keepAlive pins objects that own a go-cache: its finalizer sends on a bubble channel, which
// is fatal when the GC runs it after the bubble ended (DESIGN section 9).
var keepAlive []*gocache.Cache

// KeepAlive pins only the go-cache instances found inside the given objects (unexported fields,
// reached by reflection), so that everything else a run allocated can be collected after the run.
func KeepAlive(x ...interface{}) {
	for _, o := range x {
		before := len(keepAlive)
		pinCaches(reflect.ValueOf(o), 0, map[uintptr]bool{})
		if os.Getenv("VERIF_DEBUG_PIN") != "" {
			fmt.Fprintf(os.Stderr, "pin %T: %d caches\n", o, len(keepAlive)-before)
		}
	}
}

var gocacheType = reflect.TypeOf((*gocache.Cache)(nil))

// pinCaches walks the object graph of a controller (pointers, structs, interfaces, slices, arrays,
// maps; bounded depth; unexported fields made readable) and pins every *go-cache.Cache it finds.
func pinCaches(v reflect.Value, depth int, seen map[uintptr]bool) {
	if depth > 9 || !v.IsValid() {
		return
	}
	switch v.Kind() {
	case reflect.Ptr:
		if v.IsNil() {
			return
		}
		if v.Type() == gocacheType {
			c := (*gocache.Cache)(v.UnsafePointer())
			for _, k := range keepAlive {
				if k == c {
					return
				}
			}
			keepAlive = append(keepAlive, c)
			return
		}
		if seen[v.Pointer()] {
			return
		}
		seen[v.Pointer()] = true
		switch v.Type().Elem().PkgPath() {
		case "sigs.k8s.io/karpenter/pkg/controllers/state", "verif/sim", "k8s.io/api/core/v1", "sigs.k8s.io/karpenter/pkg/apis/v1":
			return // large graphs without caches
		}
		pinCaches(v.Elem(), depth+1, seen)
	case reflect.Interface:
		if !v.IsNil() {
			pinCaches(v.Elem(), depth+1, seen)
		}
	case reflect.Struct:
		for i := 0; i < v.NumField(); i++ {
			f := v.Field(i)
			if f.CanAddr() {
				f = reflect.NewAt(f.Type(), unsafe.Pointer(f.UnsafeAddr())).Elem()
			}
			switch f.Kind() {
			case reflect.Ptr, reflect.Interface, reflect.Struct, reflect.Slice, reflect.Array, reflect.Map:
				pinCaches(f, depth+1, seen)
			}
		}
	case reflect.Slice, reflect.Array:
		if v.Len() > 64 {
			return
		}
		for i := 0; i < v.Len(); i++ {
			pinCaches(v.Index(i), depth+1, seen)
		}
	case reflect.Map:
		if v.Len() > 64 {
			return
		}
		it := v.MapRange()
		for it.Next() {
			pinCaches(it.Value(), depth+1, seen)
		}
	}
}

type RecEvent struct {
	Step int
	At   time.Time
	Task *Task
	Ev   events.Event
}

type Recorder struct {
	sim     *Sim
	Events  []RecEvent
	OnEvent []func(RecEvent)
}

func (r *Recorder) Publish(evts ...events.Event) {
	t := r.sim.taskOfGoroutine()
	for _, e := range evts {
		re := RecEvent{Step: r.sim.step, At: r.sim.Now(), Task: t, Ev: e}
		if len(r.Events) < 20000 {
			r.Events = append(r.Events, re)
		}
		for _, f := range r.OnEvent {
			f(re)
		}
	}
}

type Env struct {
	S    *Sim
	C    *Client
	CP   *Provider
	Rec  *Recorder
	Opts *options.Options

	Cluster     *state.Cluster
	ClusterCost *cost.ClusterCost
	Parts       map[string]interface{} // controller objects by name for profile access
}

func NewEnv(s *Sim) *Env {
	e := &Env{S: s, Parts: map[string]interface{}{}}
	s.store = NewStore(s, scheme.Scheme)
	s.cache = NewCache(s)
	s.Mgr = NewManager(s)
	s.Clock = NewSimClock(s)
	e.C = NewClient(s)
	e.CP = NewProvider(s)
	e.Rec = &Recorder{sim: s}
	st := s.store
	st.AddIndex(&corev1.Pod{}, "spec.nodeName", func(o client.Object) []string { return []string{o.(*corev1.Pod).Spec.NodeName} })
	st.AddIndex(&corev1.Node{}, "spec.providerID", func(o client.Object) []string { return []string{o.(*corev1.Node).Spec.ProviderID} })
	st.AddIndex(&storagev1.VolumeAttachment{}, "spec.nodeName", func(o client.Object) []string {
		return []string{o.(*storagev1.VolumeAttachment).Spec.NodeName}
	})
	st.AddIndex(&v1.NodeClaim{}, "status.providerID", func(o client.Object) []string { return []string{o.(*v1.NodeClaim).Status.ProviderID} })
	st.AddIndex(&v1.NodeClaim{}, "spec.nodeClassRef.group", func(o client.Object) []string { return []string{o.(*v1.NodeClaim).Spec.NodeClassRef.Group} })
	st.AddIndex(&v1.NodeClaim{}, "spec.nodeClassRef.kind", func(o client.Object) []string { return []string{o.(*v1.NodeClaim).Spec.NodeClassRef.Kind} })
	st.AddIndex(&v1.NodeClaim{}, "spec.nodeClassRef.name", func(o client.Object) []string { return []string{o.(*v1.NodeClaim).Spec.NodeClassRef.Name} })
	st.AddIndex(&v1.NodePool{}, "spec.template.spec.nodeClassRef.group", func(o client.Object) []string {
		return []string{o.(*v1.NodePool).Spec.Template.Spec.NodeClassRef.Group}
	})
	st.AddIndex(&v1.NodePool{}, "spec.template.spec.nodeClassRef.kind", func(o client.Object) []string {
		return []string{o.(*v1.NodePool).Spec.Template.Spec.NodeClassRef.Kind}
	})
	st.AddIndex(&v1.NodePool{}, "spec.template.spec.nodeClassRef.name", func(o client.Object) []string {
		return []string{o.(*v1.NodePool).Spec.Template.Spec.NodeClassRef.Name}
	})
	return e
}

// BaseCtx builds the root context carrying the options.
func (e *Env) BaseCtx() context.Context {
	return options.ToContext(context.Background(), e.Opts)
}

// resetManager clears controllers for a new incarnation.
func (e *Env) resetManager() {
	s := e.S
	old := s.Mgr
	s.Mgr = NewManager(s)
	s.Mgr.onTaskStart = old.onTaskStart
	s.Mgr.OnDeliver = old.OnDeliver
	e.Parts = map[string]interface{}{}
}

func objRec[T client.Object](c client.Client, r reconcile.ObjectReconciler[T]) func(context.Context, reconcile.Request) (reconcile.Result, error) {
	rec := reconcile.AsReconciler[T](c, r)
	return rec.Reconcile
}

type singletonRec interface {
	Reconcile(ctx context.Context) (reconciler.Result, error)
}

func singletonFn(r singletonRec) func(context.Context, reconcile.Request) (reconcile.Result, error) {
	return func(ctx context.Context, _ reconcile.Request) (reconcile.Result, error) {
		res, err := r.Reconcile(ctx)
		if err != nil {
			return reconcile.Result{}, err
		}
		if res.RequeueAfter > 0 {
			return reconcile.Result{RequeueAfter: res.RequeueAfter}, nil
		}
		if res.Requeue {
			return reconcile.Result{Requeue: true}, nil //nolint:staticcheck
		}
		return reconcile.Result{}, nil
	}
}

var _ = singleton.RequeueImmediately

var createOnly = predicate.Funcs{
	CreateFunc:  func(e event.CreateEvent) bool { return true },
	UpdateFunc:  func(e event.UpdateEvent) bool { return false },
	DeleteFunc:  func(e event.DeleteEvent) bool { return false },
	GenericFunc: func(e event.GenericEvent) bool { return false },
}

// AddStateControllers registers cluster state and its informers.
func (e *Env) AddStateControllers() {
	s := e.S
	e.Cluster = state.NewCluster(s.Clock, e.C, e.CP)
	e.ClusterCost = cost.NewClusterCost(s.incCtx, e.CP, e.C)
	m := s.Mgr
	np := nodeclaimutils.IsManagedPredicateFuncs(e.CP)
	m.Add(&Ctrl{Name: "state.daemonset", WeightMul: 3, Reconcile: informer.NewDaemonSetController(e.C, e.Cluster).Reconcile,
		Watches: []Watch{{Obj: &appsv1.DaemonSet{}, Preds: []predicate.Predicate{createOnly}}}})
	m.Add(&Ctrl{Name: "state.node", WeightMul: 3, Reconcile: informer.NewNodeController(e.C, e.Cluster).Reconcile,
		Watches: []Watch{{Obj: &corev1.Node{}}}})
	m.Add(&Ctrl{Name: "state.pod", WeightMul: 3, Reconcile: informer.NewPodController(e.C, e.Cluster).Reconcile,
		Watches: []Watch{{Obj: &corev1.Pod{}}}})
	m.Add(&Ctrl{Name: "state.nodepool", WeightMul: 3, Reconcile: informer.NewNodePoolController(e.C, e.CP, e.Cluster, e.ClusterCost).Reconcile,
		Watches: []Watch{{Obj: &v1.NodePool{}, Preds: []predicate.Predicate{nodepoolutils.IsManagedPredicateFuncs(e.CP), predicate.GenerationChangedPredicate{}}}}})
	m.Add(&Ctrl{Name: "state.nodeclaim", WeightMul: 3, Reconcile: informer.NewNodeClaimController(e.C, e.CP, e.Cluster, e.ClusterCost).Reconcile,
		Watches: []Watch{{Obj: &v1.NodeClaim{}, Preds: []predicate.Predicate{np}}}})
	m.Add(&Ctrl{Name: "state.nodeclaimgc", Reconcile: nodeclaimgc.NewController(e.C, e.Cluster).Reconcile,
		Watches: []Watch{{Obj: &v1.NodeClaim{}, Handler: handler.Funcs{
			CreateFunc: func(_ context.Context, ev event.CreateEvent, q workqueue.TypedRateLimitingInterface[reconcile.Request]) {
				q.AddAfter(reconcile.Request{NamespacedName: client.ObjectKey{Name: ev.Object.GetName()}}, 15*time.Second)
			},
		}}}})
}

// DefaultNodeClass creates the ready TestNodeClass every NodePool refers to.
func (e *Env) DefaultNodeClass() *v1alpha1.TestNodeClass {
	nc := &v1alpha1.TestNodeClass{}
	nc.Name = "default"
	nc.Status.Conditions = nil
	o, err := e.S.store.Create(nc, nil)
	if err != nil {
		panic(err)
	}
	e.S.store.Mutate(e.S.store.GVK(nc), keyOf(o), func(o client.Object) {
		o.(*v1alpha1.TestNodeClass).StatusConditions().SetTrue("Ready")
	})
	return nc
}
