package sim

// Inter-pod reference model (DESIGN 5.1): required (anti-)affinity incl. namespaces /
// namespaceSelector, DoNotSchedule topology spread with maxSkew, minDomains, node inclusion
// policies and matchLabelKeys. Kube-scheduler semantics; independent of
// pkg/controllers/provisioning/scheduling/topology*.go.

import (
	"strings"
	"fmt"
	"sort"

	corev1 "k8s.io/api/core/v1"
	metav1 "k8s.io/apimachinery/pkg/apis/meta/v1"
	"k8s.io/apimachinery/pkg/labels"
	"k8s.io/component-helpers/scheduling/corev1/nodeaffinity"
)

// Placed is a pod with the set of topology domains it may end up in, per topology key.
type Placed struct {
	Pod     *corev1.Pod
	Target  string
	New     bool                      // placed by the pass under check (as opposed to already bound)
	Domains func(key string) []string // nil slice = the target has no such label (no domain)
	Node    *ModelNode                // for node inclusion policies (labels, taints); may be hypothetical
}

type nsView map[string]map[string]string // namespace -> labels

func termNamespaces(owner *corev1.Pod, term corev1.PodAffinityTerm, nss nsView) map[string]bool {
	out := map[string]bool{}
	for _, n := range term.Namespaces {
		out[n] = true
	}
	if term.NamespaceSelector != nil {
		sel, err := metav1.LabelSelectorAsSelector(term.NamespaceSelector)
		if err == nil {
			for ns, l := range nss {
				if sel.Matches(labels.Set(l)) {
					out[ns] = true
				}
			}
		}
	}
	if len(term.Namespaces) == 0 && term.NamespaceSelector == nil {
		out[owner.Namespace] = true
	}
	return out
}

func selectorWithMatchKeys(sel *metav1.LabelSelector, owner *corev1.Pod, matchKeys, mismatchKeys []string) (labels.Selector, bool) {
	if sel == nil {
		return labels.Nothing(), true
	}
	c := sel.DeepCopy()
	for _, k := range matchKeys {
		if v, ok := owner.Labels[k]; ok {
			c.MatchExpressions = append(c.MatchExpressions, metav1.LabelSelectorRequirement{Key: k, Operator: metav1.LabelSelectorOpIn, Values: []string{v}})
		}
	}
	for _, k := range mismatchKeys {
		if v, ok := owner.Labels[k]; ok {
			c.MatchExpressions = append(c.MatchExpressions, metav1.LabelSelectorRequirement{Key: k, Operator: metav1.LabelSelectorOpNotIn, Values: []string{v}})
		}
	}
	s, err := metav1.LabelSelectorAsSelector(c)
	if err != nil {
		return nil, false
	}
	return s, true
}

func termMatches(owner *corev1.Pod, term corev1.PodAffinityTerm, other *corev1.Pod, nss nsView) bool {
	if !termNamespaces(owner, term, nss)[other.Namespace] {
		return false
	}
	sel, ok := selectorWithMatchKeys(term.LabelSelector, owner, term.MatchLabelKeys, term.MismatchLabelKeys)
	if !ok {
		return false
	}
	return sel.Matches(labels.Set(other.Labels))
}

func requiredAntiTerms(p *corev1.Pod) []corev1.PodAffinityTerm {
	if p.Spec.Affinity == nil || p.Spec.Affinity.PodAntiAffinity == nil {
		return nil
	}
	return p.Spec.Affinity.PodAntiAffinity.RequiredDuringSchedulingIgnoredDuringExecution
}

func requiredAffTerms(p *corev1.Pod) []corev1.PodAffinityTerm {
	if p.Spec.Affinity == nil || p.Spec.Affinity.PodAffinity == nil {
		return nil
	}
	return p.Spec.Affinity.PodAffinity.RequiredDuringSchedulingIgnoredDuringExecution
}

func intersects(a, b []string) (string, bool) {
	for _, x := range a {
		for _, y := range b {
			if x == y {
				return x, true
			}
		}
	}
	return "", false
}

func podActive(p *corev1.Pod) bool { return !podTerminal(p) && p.DeletionTimestamp == nil }

// CheckInterPod evaluates the final plan: all = bound pods and pods placed by the pass.
func CheckInterPod(all []*Placed, nss nsView, partial bool) (oracle, msg string) {
	sort.SliceStable(all, func(i, j int) bool { return all[i].Pod.Name < all[j].Pod.Name })
	for _, a := range all {
		if !podActive(a.Pod) {
			continue
		}
		// 1. required anti-affinity, both directions: a carries the term, b matches it
		for _, term := range requiredAntiTerms(a.Pod) {
			da := a.Domains(term.TopologyKey)
			for _, b := range all {
				if b == a || b.Pod.UID == a.Pod.UID || !podActive(b.Pod) || (!a.New && !b.New) {
					continue
				}
				if !termMatches(a.Pod, term, b.Pod, nss) {
					continue
				}
				if d, bad := intersects(da, b.Domains(term.TopologyKey)); bad {
					return "anti-affinity", fmt.Sprintf("pod %s (on %s) has a required anti-affinity term on %s that matches pod %s (on %s), and both can end up in domain %q", a.Pod.Name, a.Target, term.TopologyKey, b.Pod.Name, b.Target, d)
				}
			}
		}
		// a plan of which only a part is visible (some NodeClaim of the pass was never written) can still be judged for
		// anti-affinity, where a missing placement can only hide a conflict; affinity and spread need all of it
		if !a.New || partial {
			continue
		}
		// 2. required affinity of pods placed by the pass
		for _, term := range requiredAffTerms(a.Pod) {
			da := a.Domains(term.TopologyKey)
			if len(da) == 0 {
				return "node-without-topology-label", fmt.Sprintf("pod %s has a required pod-affinity term on %s but was placed on %s, which has no such topology label (kube-scheduler requires every topology label of a required term on the node)", a.Pod.Name, term.TopologyKey, a.Target)
			}
			anyMatchAnywhere := false
			for _, b := range all {
				if b.Pod.UID != a.Pod.UID && podActive(b.Pod) && termMatches(a.Pod, term, b.Pod, nss) {
					anyMatchAnywhere = true
				}
			}
			selfMatch := termMatches(a.Pod, term, a.Pod, nss)
			for _, d := range da {
				found := false
				for _, b := range all {
					if b.Pod.UID == a.Pod.UID || !podActive(b.Pod) || !termMatches(a.Pod, term, b.Pod, nss) {
						continue
					}
					db := b.Domains(term.TopologyKey)
					if len(db) == 1 && db[0] == d {
						found = true
						break
					}
				}
				if !found && !(selfMatch && !anyMatchAnywhere) {
					var where []string
					for _, b := range all {
						if b.Pod.UID != a.Pod.UID && podActive(b.Pod) && termMatches(a.Pod, term, b.Pod, nss) {
							where = append(where, fmt.Sprintf("%s@%s%v", b.Pod.Name, b.Target, b.Domains(term.TopologyKey)))
						}
					}
					return "affinity", fmt.Sprintf("pod %s (on %s) requires a pod matching its affinity term in its %s domain, but it may end up in %q where no matching pod certainly is (matching pods: %v)", a.Pod.Name, a.Target, term.TopologyKey, d, where)
				}
			}
		}
		// 3. DoNotSchedule topology spread
		for _, c := range a.Pod.Spec.TopologySpreadConstraints {
			if c.WhenUnsatisfiable != corev1.DoNotSchedule {
				continue
			}
			da := a.Domains(c.TopologyKey)
			if len(da) == 0 && strings.HasPrefix(a.Target, "node/") {
				return "node-without-topology-label", fmt.Sprintf("pod %s carries a DoNotSchedule spread constraint on %s but was placed on %s, which has no such topology label (kube-scheduler skips such nodes)", a.Pod.Name, c.TopologyKey, a.Target)
			}
			if len(da) != 1 {
				return "spread", fmt.Sprintf("pod %s carries a DoNotSchedule spread constraint on %s but its domain on %s is not determined (%v)", a.Pod.Name, c.TopologyKey, a.Target, da)
			}
			sel, ok := selectorWithMatchKeys(c.LabelSelector, a.Pod, c.MatchLabelKeys, nil)
			if !ok {
				continue
			}
			counts := map[string]int{}
			eligible := map[string]bool{}
			for _, b := range all {
				if b.Node == nil {
					continue
				}
				db := b.Domains(c.TopologyKey)
				if len(db) != 1 {
					continue
				}
				if !spreadNodeEligible(a.Pod, c, b.Node) {
					continue
				}
				matches := podActive(b.Pod) && b.Pod.Namespace == a.Pod.Namespace && sel.Matches(labels.Set(b.Pod.Labels))
				// R4: a domain exists for kube-scheduler through a registered Node; a NodeClaim without Node (in flight,
				// or new in this pass) only makes a domain by the matching pods placed on it - Karpenter deliberately does
				// not discover domains from in-flight NodeClaims
				if b.Node.Meta == "node" || matches {
					eligible[db[0]] = true
				}
				if matches {
					counts[db[0]]++
				}
			}
			eligible[da[0]] = true
			min := -1
			for d := range eligible {
				if min < 0 || counts[d] < min {
					min = counts[d]
				}
			}
			if c.MinDomains != nil && len(eligible) < int(*c.MinDomains) {
				min = 0
			}
			if min < 0 {
				min = 0
			}
			if skew := counts[da[0]] - min; skew > int(c.MaxSkew) {
				var there []string
				for _, b := range all {
					if b.Node == nil || !podActive(b.Pod) || b.Pod.Namespace != a.Pod.Namespace || !sel.Matches(labels.Set(b.Pod.Labels)) {
						continue
					}
					if db := b.Domains(c.TopologyKey); len(db) == 1 && db[0] == da[0] {
						there = append(there, fmt.Sprintf("%s(new=%v,phase=%s)", b.Pod.Name, b.New, b.Pod.Status.Phase))
					}
				}
				var el []string
				for d := range eligible {
					el = append(el, fmt.Sprintf("%s=%d", d, counts[d]))
				}
				sort.Strings(el)
				var nodesOf []string
				for _, b := range all {
					if b.Node != nil {
						if db := b.Domains(c.TopologyKey); len(db) == 1 && counts[db[0]] == min && spreadNodeEligible(a.Pod, c, b.Node) {
							nodesOf = append(nodesOf, b.Target)
						}
					}
				}
				there = append(there, fmt.Sprintf("eligible=%v minTargets=%v sel=%v", el, dedupe(nodesOf), a.Pod.Spec.NodeSelector))
				pol := fmt.Sprintf("nodeAffinityPolicy=%v nodeTaintsPolicy=%v minDomains=%v", deref(c.NodeAffinityPolicy), deref(c.NodeTaintsPolicy), func() int32 {
					if c.MinDomains == nil {
						return 0
					}
					return *c.MinDomains
				}())
				return "spread", fmt.Sprintf("pod %s placed on %s (taints %v): domain %q of %s holds %d matching pods %v while the least loaded eligible domain holds %d: skew %d > maxSkew %d (%s)", a.Pod.Name, a.Target, a.Node.Taints, da[0], c.TopologyKey, counts[da[0]], there, min, skew, c.MaxSkew, pol)
			}
		}
	}
	return "", ""
}

// spreadNodeEligible: node inclusion policies of a spread constraint.
func spreadNodeEligible(p *corev1.Pod, c corev1.TopologySpreadConstraint, n *ModelNode) bool {
	honorAffinity := c.NodeAffinityPolicy == nil || *c.NodeAffinityPolicy == corev1.NodeInclusionPolicyHonor
	honorTaints := c.NodeTaintsPolicy != nil && *c.NodeTaintsPolicy == corev1.NodeInclusionPolicyHonor
	if honorAffinity {
		if ok, err := nodeaffinity.GetRequiredNodeAffinity(p).Match(n.asNode()); err != nil || !ok {
			return false
		}
	}
	if honorTaints && untolerated(n.Taints, p) != nil {
		return false
	}
	return true
}

// InterPodAdmits: would kube-scheduler's inter-pod filters admit pod on node given the bound pods?
func InterPodAdmits(pod *corev1.Pod, node *ModelNode, nodes []*ModelNode, nss nsView) bool {
	var all []*Placed
	for _, n := range nodes {
		n := n
		for _, q := range n.Pods {
			all = append(all, &Placed{Pod: q, Target: "node/" + n.Name, Node: n, Domains: labelDomains(n.Labels)})
		}
		// a node without pods still defines spread domains
		all = append(all, &Placed{Pod: &corev1.Pod{Status: corev1.PodStatus{Phase: corev1.PodSucceeded}}, Target: "node/" + n.Name, Node: n, Domains: labelDomains(n.Labels)})
	}
	all = append(all, &Placed{Pod: pod, Target: "node/" + node.Name, New: true, Node: node, Domains: labelDomains(node.Labels)})
	o, _ := CheckInterPod(all, nss, false)
	return o == ""
}

func labelDomains(l map[string]string) func(string) []string {
	return func(key string) []string {
		if v, ok := l[key]; ok {
			return []string{v}
		}
		return nil
	}
}

func deref(p *corev1.NodeInclusionPolicy) string {
	if p == nil {
		return "<default>"
	}
	return string(*p)
}

func dedupe(in []string) []string {
	seen := map[string]bool{}
	var out []string
	for _, x := range in {
		if !seen[x] {
			seen[x] = true
			out = append(out, x)
		}
	}
	sort.Strings(out)
	return out
}
