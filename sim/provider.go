package sim

// The simulated cloud provider: the ground truth about instances. Create picks ANY type and
// offering the written NodeClaim permits (biased to the worst case), termination is
// asynchronous, List may lag.

import (
	"context"
	"fmt"
	"sort"
	"time"

	"github.com/awslabs/operatorpkg/status"
	corev1 "k8s.io/api/core/v1"
	"k8s.io/apimachinery/pkg/api/resource"
	metav1 "k8s.io/apimachinery/pkg/apis/meta/v1"
	"k8s.io/apimachinery/pkg/types"

	v1 "sigs.k8s.io/karpenter/pkg/apis/v1"
	"sigs.k8s.io/karpenter/pkg/cloudprovider"
	"sigs.k8s.io/karpenter/pkg/scheduling"
	"sigs.k8s.io/karpenter/pkg/test/v1alpha1"
	"sigs.k8s.io/karpenter/pkg/utils/resources"
)

func init() {
	v1.WellKnownLabels = v1.WellKnownLabels.Insert(v1alpha1.LabelReservationID)
	cloudprovider.ReservationIDLabel = v1alpha1.LabelReservationID
	cloudprovider.ReservedCapacityLabels.Insert(v1alpha1.LabelReservationID)
}

type Instance struct {
	ID          string
	NodeClaim   string
	UID         types.UID
	NodePool    string
	Type        *cloudprovider.InstanceType
	Offering    *cloudprovider.Offering
	Labels      map[string]string
	Capacity    corev1.ResourceList
	Allocatable corev1.ResourceList
	Price       float64
	CreatedAt   time.Time
	CreatedInc  int
	CreatedStep int
	AckedCreate bool // the caller received the success answer
	Terminating bool
	TerminateAt time.Time
	Gone        bool
	GoneAt      time.Time
	Snapshot    *v1.NodeClaim
}

type Provider struct {
	sim       *Sim
	Catalog   []*cloudprovider.InstanceType
	PerPool   map[string][]*cloudprovider.InstanceType
	Instances map[string]*Instance
	Order     []string
	seq       int
	Drifted   map[string]cloudprovider.DriftReason
	Repair    []cloudprovider.RepairPolicy
	// knobs
	TermDelayMax time.Duration
	WorstBias    int // 0..100: percentage of creates that pick the worst-case option
	ListLag      bool
	OnCreate     []func(t *Task, nc *v1.NodeClaim, inst *Instance, err error, fault FaultKind)
	OnDelete     []func(t *Task, nc *v1.NodeClaim, inst *Instance, err error)
}

var _ cloudprovider.CloudProvider = (*Provider)(nil)

func NewProvider(s *Sim) *Provider {
	return &Provider{sim: s, Instances: map[string]*Instance{}, PerPool: map[string][]*cloudprovider.InstanceType{},
		Drifted: map[string]cloudprovider.DriftReason{}, TermDelayMax: 2 * time.Minute, WorstBias: 50}
}

type subRand struct{ s uint64 }

func (r *subRand) n(n int) int {
	if n <= 1 || r.s == 0 {
		return 0
	}
	r.s += 0x9e3779b97f4a7c15
	z := r.s
	z = (z ^ (z >> 30)) * 0xbf58476d1ce4e5b9
	z = (z ^ (z >> 27)) * 0x94d049bb133111eb
	z ^= z >> 31
	return int(z % uint64(n))
}

type launchOption struct {
	it *cloudprovider.InstanceType
	of *cloudprovider.Offering
}

// LaunchOptions enumerates every (type, offering) the provider may launch for the NodeClaim as
// written in the API: compatible type, available compatible offering of the capacity type that
// takes precedence (reserved, spot, on-demand), resource requests fit.
func (p *Provider) LaunchOptions(nc *v1.NodeClaim, its []*cloudprovider.InstanceType) []launchOption {
	reqs := scheduling.NewNodeSelectorRequirementsWithMinValues(nc.Spec.Requirements...)
	var all []launchOption
	for _, it := range its {
		if !reqs.IsCompatible(it.Requirements, scheduling.AllowUndefinedWellKnownLabels) {
			continue
		}
		if !resources.Fits(nc.Spec.Resources.Requests, it.Allocatable()) {
			continue
		}
		for _, of := range it.Offerings {
			if !of.Available || !reqs.IsCompatible(of.Requirements, scheduling.AllowUndefinedWellKnownLabels) {
				continue
			}
			if of.CapacityType() == v1.CapacityTypeReserved && of.ReservationCapacity <= 0 {
				continue
			}
			all = append(all, launchOption{it, of})
		}
	}
	for _, ct := range []string{v1.CapacityTypeReserved, v1.CapacityTypeSpot, v1.CapacityTypeOnDemand} {
		var sel []launchOption
		for _, o := range all {
			if o.of.CapacityType() == ct {
				sel = append(sel, o)
			}
		}
		if len(sel) > 0 {
			return sel
		}
	}
	return nil
}

func (p *Provider) typesFor(pool string) []*cloudprovider.InstanceType {
	if v, ok := p.PerPool[pool]; ok {
		return v
	}
	return p.Catalog
}

func (p *Provider) Create(ctx context.Context, nc *v1.NodeClaim) (*v1.NodeClaim, error) {
	s := p.sim
	call := s.Enter(ctx, "cp", "create", "Instance", nc.Name, true)
	t := TaskFrom(ctx)
	fault := FNone
	var salt uint64
	if call != nil {
		fault = call.res.fault
		salt = call.res.salt
	}
	rec := func(inst *Instance, err error) {
		if t != nil {
			t.Writes = append(t.Writes, WriteRec{Seam: "cp", Verb: "create", Kind: "Instance", Key: nc.Name, Obj: inst, Err: err, Fault: fault, Step: s.step, At: s.Now()})
		}
		for _, f := range p.OnCreate {
			f(t, nc, inst, err, fault)
		}
	}
	if fault == FErrBefore {
		var err error
		switch call.Idx % 3 {
		case 0:
			err = cloudprovider.NewInsufficientCapacityError(fmt.Errorf("sim: injected ICE"))
		case 1:
			err = cloudprovider.NewNodeClassNotReadyError(fmt.Errorf("sim: injected nodeclass not ready"))
		default:
			err = fmt.Errorf("sim: injected create error")
		}
		rec(nil, err)
		s.Leave(call)
		return nil, err
	}
	opts := p.LaunchOptions(nc, p.typesFor(nc.Labels[v1.NodePoolLabelKey]))
	if len(opts) == 0 {
		err := cloudprovider.NewInsufficientCapacityError(fmt.Errorf("sim: no launchable instance type for nodeclaim %s", nc.Name))
		rec(nil, err)
		s.Leave(call)
		return nil, err
	}
	r := &subRand{s: salt}
	var pick launchOption
	mode := r.n(100)
	switch {
	case salt == 0 || mode < p.WorstBias/2:
		// dearest option
		pick = opts[0]
		for _, o := range opts {
			if o.of.Price > pick.of.Price {
				pick = o
			}
		}
	case mode < p.WorstBias:
		// largest option (cpu, then memory)
		pick = opts[0]
		for _, o := range opts {
			a, b := o.it.Capacity[corev1.ResourceCPU], pick.it.Capacity[corev1.ResourceCPU]
			if c := a.Cmp(b); c > 0 {
				pick = o
			} else if c == 0 {
				am, bm := o.it.Capacity[corev1.ResourceMemory], pick.it.Capacity[corev1.ResourceMemory]
				if am.Cmp(bm) > 0 {
					pick = o
				}
			}
		}
	default:
		pick = opts[r.n(len(opts))]
	}
	inst := p.launch(nc, pick, t)
	if pick.of.CapacityType() == v1.CapacityTypeReserved {
		pick.of.ReservationCapacity--
		if pick.of.ReservationCapacity <= 0 {
			pick.of.Available = false
		}
	}
	if fault == FErrAfter || fault == FCrashAfter {
		if fault == FCrashAfter {
			s.pendingCrash = true
			call.res.slow = true
		}
		err := fmt.Errorf("sim: create response lost")
		rec(inst, err)
		s.Leave(call)
		return nil, err
	}
	inst.AckedCreate = true
	rec(inst, nil)
	s.Leave(call)
	return inst.Snapshot.DeepCopy(), nil
}

func (p *Provider) launch(nc *v1.NodeClaim, pick launchOption, t *Task) *Instance {
	p.seq++
	id := fmt.Sprintf("sim://i-%05d", p.seq)
	labels := map[string]string{}
	for key, req := range pick.it.Requirements {
		if req.Operator() == corev1.NodeSelectorOpIn && req.Len() == 1 {
			labels[key] = req.Values()[0]
		}
	}
	for _, req := range pick.of.Requirements {
		labels[req.Key] = req.Any()
	}
	for k, v := range nc.Labels {
		labels[k] = v
	}
	nonZero := func(rl corev1.ResourceList) corev1.ResourceList {
		out := corev1.ResourceList{}
		for k, v := range rl {
			if !v.IsZero() {
				out[k] = v.DeepCopy()
			}
		}
		return out
	}
	inst := &Instance{ID: id, NodeClaim: nc.Name, UID: nc.UID, NodePool: nc.Labels[v1.NodePoolLabelKey], Type: pick.it, Offering: pick.of,
		Labels: labels, Capacity: nonZero(pick.it.Capacity), Allocatable: nonZero(pick.it.Allocatable()), Price: pick.of.Price,
		CreatedAt: p.sim.Now(), CreatedInc: p.sim.inc, CreatedStep: p.sim.step}
	inst.Snapshot = &v1.NodeClaim{
		ObjectMeta: metav1.ObjectMeta{Name: nc.Name, Labels: labels, Annotations: nc.Annotations, CreationTimestamp: metav1.NewTime(inst.CreatedAt.Truncate(time.Second))},
		Spec:       *nc.Spec.DeepCopy(),
		Status:     v1.NodeClaimStatus{ProviderID: id, Capacity: inst.Capacity, Allocatable: inst.Allocatable},
	}
	p.Instances[id] = inst
	p.Order = append(p.Order, id)
	p.sim.Stat("cp.launch")
	return inst
}

func (p *Provider) settle(inst *Instance) {
	if inst.Terminating && !inst.Gone && !p.sim.Now().Before(inst.TerminateAt) {
		inst.Gone = true
		inst.GoneAt = inst.TerminateAt
	}
}

func (p *Provider) Delete(ctx context.Context, nc *v1.NodeClaim) error {
	s := p.sim
	call := s.Enter(ctx, "cp", "delete", "Instance", nc.Name, true)
	t := TaskFrom(ctx)
	fault := FNone
	if call != nil {
		fault = call.res.fault
	}
	done := func(inst *Instance, err error) error {
		if t != nil {
			t.Writes = append(t.Writes, WriteRec{Seam: "cp", Verb: "delete", Kind: "Instance", Key: nc.Name, Obj: inst, Err: err, Fault: fault, Step: s.step, At: s.Now()})
		}
		for _, f := range p.OnDelete {
			f(t, nc, inst, err)
		}
		s.Leave(call)
		return err
	}
	if fault == FErrBefore {
		return done(nil, fmt.Errorf("sim: injected delete error"))
	}
	inst := p.Instances[nc.Status.ProviderID]
	if inst != nil {
		p.settle(inst)
	}
	if inst == nil || inst.Gone {
		return done(inst, cloudprovider.NewNodeClaimNotFoundError(fmt.Errorf("sim: instance %q not found", nc.Status.ProviderID)))
	}
	if !inst.Terminating {
		inst.Terminating = true
		d := time.Duration(0)
		if p.TermDelayMax > 0 {
			// deterministic per instance: derived from its sequence number and the run seed
			h := hashStr(inst.ID) ^ s.Cfg.Seed
			switch h % 4 {
			case 0:
				d = 0
			default:
				d = time.Duration(h%uint64(p.TermDelayMax/time.Second)+1) * time.Second
			}
		}
		inst.TerminateAt = s.Now().Add(d)
		p.settle(inst)
		s.Stat("cp.terminate")
	}
	var err error
	if fault == FErrAfter {
		err = fmt.Errorf("sim: delete response lost")
	}
	return done(inst, err)
}

func (p *Provider) Get(ctx context.Context, id string) (*v1.NodeClaim, error) {
	s := p.sim
	call := s.Enter(ctx, "cp", "get", "Instance", id, false)
	t := TaskFrom(ctx)
	defer s.Leave(call)
	if call != nil && call.res.fault == FErrBefore {
		err := fmt.Errorf("sim: injected get error")
		if t != nil {
			t.Reads = append(t.Reads, ReadRec{Verb: "cp.get", Kind: "Instance", Key: id, Err: err, Step: s.step, At: s.Now()})
		}
		return nil, err
	}
	inst := p.Instances[id]
	if inst != nil {
		p.settle(inst)
	}
	if inst == nil || inst.Gone {
		err := cloudprovider.NewNodeClaimNotFoundError(fmt.Errorf("sim: instance %q not found", id))
		if t != nil {
			t.Reads = append(t.Reads, ReadRec{Verb: "cp.get", Kind: "Instance", Key: id, Err: err, Step: s.step, At: s.Now()})
		}
		return nil, err
	}
	if t != nil {
		t.Reads = append(t.Reads, ReadRec{Verb: "cp.get", Kind: "Instance", Key: id, Objs: []interface{}{inst}, Step: s.step, At: s.Now()})
	}
	return inst.Snapshot.DeepCopy(), nil
}

func (p *Provider) List(ctx context.Context) ([]*v1.NodeClaim, error) {
	s := p.sim
	call := s.Enter(ctx, "cp", "list", "Instance", "", false)
	t := TaskFrom(ctx)
	defer s.Leave(call)
	var salt uint64
	if call != nil {
		salt = call.res.salt
		if call.res.fault == FErrBefore {
			// a listing fails as a whole: plain error, or a typed per-instance NotFound bubbling up from describe / convert
			var err error = fmt.Errorf("sim: injected list error")
			if call.Idx%2 == 1 {
				err = cloudprovider.NewNodeClaimNotFoundError(fmt.Errorf("sim: injected list error (instance not found while describing)"))
			}
			if t != nil {
				t.Reads = append(t.Reads, ReadRec{Verb: "cp.list", Kind: "Instance", Err: err, Step: s.step, At: s.Now()})
			}
			return nil, err
		}
	}
	r := &subRand{s: salt}
	var out []*v1.NodeClaim
	var snaps []interface{}
	for _, id := range p.Order {
		inst := p.Instances[id]
		p.settle(inst)
		if inst.Gone {
			continue
		}
		// eventual consistency: a very young instance may be missing from the listing
		if p.ListLag && s.FaultsOn && s.Now().Sub(inst.CreatedAt) < 10*time.Second && r.n(3) == 1 {
			s.Stat("fault.cp.list.lag")
			continue
		}
		out = append(out, inst.Snapshot.DeepCopy())
		snaps = append(snaps, inst)
	}
	if t != nil {
		t.Reads = append(t.Reads, ReadRec{Verb: "cp.list", Kind: "Instance", Objs: snaps, Step: s.step, At: s.Now()})
	}
	return out, nil
}

func (p *Provider) GetInstanceTypes(ctx context.Context, np *v1.NodePool) ([]*cloudprovider.InstanceType, error) {
	var its []*cloudprovider.InstanceType
	if np != nil {
		its = p.typesFor(np.Name)
	} else {
		its = p.Catalog
	}
	if t := TaskFrom(ctx); t != nil && np != nil {
		t.Notes["its/"+np.Name] = its
	}
	return its, nil
}

func (p *Provider) IsDrifted(ctx context.Context, nc *v1.NodeClaim) (cloudprovider.DriftReason, error) {
	return p.Drifted[nc.Name], nil
}

func (p *Provider) RepairPolicies() []cloudprovider.RepairPolicy { return p.Repair }
func (p *Provider) Name() string                                  { return "sim" }
func (p *Provider) GetSupportedNodeClasses() []status.Object {
	return []status.Object{&v1alpha1.TestNodeClass{}}
}

// LiveInstances returns instances that still exist, in creation order.
func (p *Provider) LiveInstances() []*Instance {
	var out []*Instance
	for _, id := range p.Order {
		inst := p.Instances[id]
		p.settle(inst)
		if !inst.Gone {
			out = append(out, inst)
		}
	}
	return out
}

// ---- catalog generation

type CatalogSpec struct {
	Types    int
	Zones    []string
	Spot     bool
	Reserved bool
	GPU      bool
	Arm      bool
	Ties     bool
}

const GPUResource corev1.ResourceName = "sim.io/gpu"

func GenCatalog(ch *Chooser, spec CatalogSpec) []*cloudprovider.InstanceType {
	cpus := []int{1, 2, 4, 8, 16, 32}
	ratios := []int{2, 4, 8}
	var out []*cloudprovider.InstanceType
	seen := map[string]bool{}
	for len(out) < spec.Types {
		cpu := cpus[ch.Pick("cat.cpu", len(cpus))]
		ratio := ratios[ch.Pick("cat.ratio", len(ratios))]
		arch := "amd64"
		if spec.Arm && ch.Pick("cat.arm", 4) == 0 {
			arch = "arm64"
		}
		gpu := 0
		if spec.GPU && ch.Pick("cat.gpu", 4) == 0 {
			gpu = 1 + ch.Pick("cat.gpun", 4)
		}
		name := fmt.Sprintf("t%dx%d-%s", cpu, ratio, arch)
		if gpu > 0 {
			name += fmt.Sprintf("-g%d", gpu)
		}
		if seen[name] {
			name += fmt.Sprintf("-v%d", len(out))
		}
		seen[name] = true
		pods := []int{4, 8, 16, 30, 58, 110}[ch.Pick("cat.pods", 6)]
		capacity := corev1.ResourceList{
			corev1.ResourceCPU:              *resource.NewQuantity(int64(cpu), resource.DecimalSI),
			corev1.ResourceMemory:           resource.MustParse(fmt.Sprintf("%dGi", cpu*ratio)),
			corev1.ResourcePods:             *resource.NewQuantity(int64(pods), resource.DecimalSI),
			corev1.ResourceEphemeralStorage: resource.MustParse("20Gi"),
		}
		if gpu > 0 {
			capacity[GPUResource] = *resource.NewQuantity(int64(gpu), resource.DecimalSI)
		}
		base := float64(cpu)*0.04 + float64(cpu*ratio)*0.005 + float64(gpu)*0.5
		if spec.Ties && ch.Pick("cat.tie", 3) == 0 {
			base = float64(cpu) * 0.05 // produces equal prices across ratios
		}
		if arch == "arm64" {
			base *= 0.8
		}
		var ofs cloudprovider.Offerings
		for _, z := range spec.Zones {
			if len(spec.Zones) > 1 && ch.Pick("cat.zone", 5) == 0 {
				continue // type not offered in this zone
			}
			od := &cloudprovider.Offering{Available: ch.Pick("cat.odavail", 8) != 0, Price: base,
				Requirements: scheduling.NewLabelRequirements(map[string]string{v1.CapacityTypeLabelKey: v1.CapacityTypeOnDemand, corev1.LabelTopologyZone: z})}
			ofs = append(ofs, od)
			if spec.Spot && ch.Pick("cat.spot", 4) != 0 {
				f := []float64{0.3, 0.5, 0.7, 1.0}[ch.Pick("cat.spotf", 4)]
				ofs = append(ofs, &cloudprovider.Offering{Available: ch.Pick("cat.spavail", 6) != 0, Price: base * f,
					Requirements: scheduling.NewLabelRequirements(map[string]string{v1.CapacityTypeLabelKey: v1.CapacityTypeSpot, corev1.LabelTopologyZone: z})})
			}
			if spec.Reserved && ch.Pick("cat.res", 5) == 0 {
				ofs = append(ofs, &cloudprovider.Offering{Available: true, Price: base / 10_000_000, ReservationCapacity: 1 + ch.Pick("cat.rescap", 3),
					Requirements: scheduling.NewLabelRequirements(map[string]string{v1.CapacityTypeLabelKey: v1.CapacityTypeReserved, corev1.LabelTopologyZone: z,
						v1alpha1.LabelReservationID: fmt.Sprintf("r-%s-%s", name, z)})})
			}
		}
		if len(ofs) == 0 {
			z := spec.Zones[0]
			ofs = append(ofs, &cloudprovider.Offering{Available: true, Price: base,
				Requirements: scheduling.NewLabelRequirements(map[string]string{v1.CapacityTypeLabelKey: v1.CapacityTypeOnDemand, corev1.LabelTopologyZone: z})})
		}
		out = append(out, NewInstanceType(name, arch, capacity, ofs))
	}
	sort.Slice(out, func(i, j int) bool { return out[i].Name < out[j].Name })
	return out
}

func NewInstanceType(name, arch string, capacity corev1.ResourceList, ofs cloudprovider.Offerings) *cloudprovider.InstanceType {
	zones := map[string]bool{}
	cts := map[string]bool{}
	rids := map[string]bool{}
	for _, o := range ofs {
		if !o.Available {
			continue
		}
		zones[o.Zone()] = true
		cts[o.CapacityType()] = true
		if o.CapacityType() == v1.CapacityTypeReserved {
			rids[o.ReservationID()] = true
		}
	}
	keys := func(m map[string]bool) []string {
		var out []string
		for k := range m {
			out = append(out, k)
		}
		sort.Strings(out)
		return out
	}
	reqs := scheduling.NewRequirements(
		scheduling.NewRequirement(corev1.LabelInstanceTypeStable, corev1.NodeSelectorOpIn, name),
		scheduling.NewRequirement(corev1.LabelArchStable, corev1.NodeSelectorOpIn, arch),
		scheduling.NewRequirement(corev1.LabelOSStable, corev1.NodeSelectorOpIn, string(corev1.Linux)),
		scheduling.NewRequirement(corev1.LabelTopologyZone, corev1.NodeSelectorOpIn, keys(zones)...),
		scheduling.NewRequirement(v1.CapacityTypeLabelKey, corev1.NodeSelectorOpIn, keys(cts)...),
	)
	if len(rids) > 0 {
		reqs.Add(scheduling.NewRequirement(v1alpha1.LabelReservationID, corev1.NodeSelectorOpIn, keys(rids)...))
	} else {
		reqs.Add(scheduling.NewRequirement(v1alpha1.LabelReservationID, corev1.NodeSelectorOpDoesNotExist))
	}
	return &cloudprovider.InstanceType{
		Name:         name,
		Requirements: reqs,
		Offerings:    ofs,
		Capacity:     capacity,
		Overhead: &cloudprovider.InstanceTypeOverhead{
			KubeReserved: corev1.ResourceList{corev1.ResourceCPU: resource.MustParse("100m"), corev1.ResourceMemory: resource.MustParse("100Mi")},
		},
	}
}

// FlipOffering replaces the instance type by a NEW object whose offering i has the opposite
// availability. InstanceType caches its available offerings on first use, so a provider must hand
// out fresh objects when availability changes; callers that hold the old slice keep a consistent view.
func (p *Provider) FlipOffering(typeIdx, ofIdx int) (*cloudprovider.InstanceType, *cloudprovider.Offering) {
	old := p.Catalog[typeIdx]
	var ofs cloudprovider.Offerings
	for i, o := range old.Offerings {
		c := &cloudprovider.Offering{Requirements: o.Requirements, Price: o.Price, Available: o.Available, ReservationCapacity: o.ReservationCapacity}
		if i == ofIdx {
			c.Available = !c.Available
		}
		ofs = append(ofs, c)
	}
	arch := old.Requirements.Get(corev1.LabelArchStable).Any()
	nit := NewInstanceType(old.Name, arch, old.Capacity, ofs)
	// keep the type's own zone / capacity-type requirement as the full set of its offerings (not only available ones)
	cat := append([]*cloudprovider.InstanceType(nil), p.Catalog...)
	cat[typeIdx] = nit
	p.Catalog = cat
	return nit, ofs[ofIdx]
}
