package sim

import (
	"time"

	"sigs.k8s.io/karpenter/pkg/operator/options"
)

type Profile interface {
	Name() string
	Run(s *Sim)
}

var Profiles = map[string]func() Profile{}

// DefaultOptions mirrors the shipped defaults of the operator options that the controllers read.
func DefaultOptions() *options.Options {
	return &options.Options{
		CPURequests:       1000,
		BatchMaxDuration:  10 * time.Second,
		BatchIdleDuration: time.Second,
		PreferencePolicy:  options.PreferencePolicyRespect,
		MinValuesPolicy:   options.MinValuesPolicyStrict,
		IgnoreDRARequests: true,
		FeatureGates: options.FeatureGates{
			ReservedCapacity: true,
		},
		DisableClusterStateObservability: true,
	}
}
