package sim

// Profile `state` (C11): random histories over Nodes, NodeClaims, Pods, DaemonSets, CSINodes applied
// to the API while the real state informers run under seeded delivery orders; at quiescent points
// the incremental cluster state is compared with a fresh state.Cluster built from the same API
// objects by the same real informer controllers.

import (
	"fmt"
	"sort"
	"strings"

	appsv1 "k8s.io/api/apps/v1"
	corev1 "k8s.io/api/core/v1"
	storagev1 "k8s.io/api/storage/v1"
	"k8s.io/apimachinery/pkg/api/resource"
	metav1 "k8s.io/apimachinery/pkg/apis/meta/v1"
	"k8s.io/apimachinery/pkg/runtime/schema"
	"k8s.io/apimachinery/pkg/types"
	"k8s.io/utils/ptr"
	"sigs.k8s.io/controller-runtime/pkg/client"
	"sigs.k8s.io/controller-runtime/pkg/reconcile"

	v1 "sigs.k8s.io/karpenter/pkg/apis/v1"
	"sigs.k8s.io/karpenter/pkg/controllers/state"
	"sigs.k8s.io/karpenter/pkg/controllers/state/informer"
	"sigs.k8s.io/karpenter/pkg/state/cost"
	"sigs.k8s.io/karpenter/pkg/test/v1alpha1"
)

var (
	gvkNode      = corev1.SchemeGroupVersion.WithKind("Node")
	gvkPod       = corev1.SchemeGroupVersion.WithKind("Pod")
	gvkPVC       = corev1.SchemeGroupVersion.WithKind("PersistentVolumeClaim")
	gvkPV        = corev1.SchemeGroupVersion.WithKind("PersistentVolume")
	gvkNS        = corev1.SchemeGroupVersion.WithKind("Namespace")
	gvkDS        = appsv1.SchemeGroupVersion.WithKind("DaemonSet")
	gvkCSINode   = storagev1.SchemeGroupVersion.WithKind("CSINode")
	gvkSC        = storagev1.SchemeGroupVersion.WithKind("StorageClass")
	gvkVA        = storagev1.SchemeGroupVersion.WithKind("VolumeAttachment")
	gvkNodeClaim = schema.GroupVersionKind{Group: "karpenter.sh", Version: "v1", Kind: "NodeClaim"}
	gvkNodePool  = schema.GroupVersionKind{Group: "karpenter.sh", Version: "v1", Kind: "NodePool"}
)

type stateProfile struct {
	e       *Env
	s       *Sim
	ch      *Chooser
	nNode   int
	nNC     int
	nPod    int
	checked int
	ops     []string
	pidUsed map[string]bool
	podSpecs map[string]*corev1.Pod
}

func init() { Profiles["state"] = func() Profile { return &stateProfile{} } }

func (p *stateProfile) Name() string { return "state" }

func (p *stateProfile) build() {
	p.e.resetManager()
	p.e.AddStateControllers()
	p.s.Mgr.Resync()
}

func (p *stateProfile) Run(s *Sim) {
	p.s, p.ch = s, s.Ch
	p.pidUsed = map[string]bool{}
	p.podSpecs = map[string]*corev1.Pod{}
	p.e = NewEnv(s)
	p.e.Opts = DefaultOptions()
	s.DrawKnobs()
	p.e.CP.Catalog = GenCatalog(s.Ch, CatalogSpec{Types: 4, Zones: []string{"zone-a", "zone-b"}, Spot: true})
	s.Boot(p.e.BaseCtx(), p.build)
	p.setupStatic()
	// namespaces, storage objects, pools and the daemonset exist long before the history starts
	s.SettleMode = true
	s.Settle(2000)
	s.SettleMode = false
	nOps := 15 + p.ch.Pick("state.nops", 60)
	for i := 0; i < nOps && len(s.Viol) == 0 && s.Fatal == ""; i++ {
		p.op()
		k := p.ch.Pick("state.steps", 12)
		allowTime := p.ch.Pick("state.time", 5) == 0
		for j := 0; j < k; j++ {
			if !s.StepOpt(allowTime) {
				break
			}
		}
		if p.ch.Pick("state.check", 6) == 0 {
			p.check("mid")
		}
	}
	p.check("end")
	s.Sample = p.ops
}

func (p *stateProfile) setupStatic() {
	st := p.s.store
	p.e.DefaultNodeClass()
	for _, n := range []string{"default", "other"} {
		ns := &corev1.Namespace{ObjectMeta: metav1.ObjectMeta{Name: n, Labels: map[string]string{"team": n}}}
		must(st.Create(ns, nil))
	}
	for _, sc := range []string{"sc-a", "sc-b"} {
		must(st.Create(&storagev1.StorageClass{ObjectMeta: metav1.ObjectMeta{Name: sc}, Provisioner: "csi." + sc}, nil))
	}
	for i := 0; i < 5; i++ {
		sc := []string{"sc-a", "sc-b"}[i%2]
		pvc := &corev1.PersistentVolumeClaim{ObjectMeta: metav1.ObjectMeta{Name: fmt.Sprintf("pvc-%d", i), Namespace: "default"},
			Spec: corev1.PersistentVolumeClaimSpec{StorageClassName: ptr.To(sc)}}
		if i >= 3 {
			pvc.Spec.VolumeName = fmt.Sprintf("pv-%d", i)
			must(st.Create(&corev1.PersistentVolume{ObjectMeta: metav1.ObjectMeta{Name: pvc.Spec.VolumeName},
				Spec: corev1.PersistentVolumeSpec{PersistentVolumeSource: corev1.PersistentVolumeSource{CSI: &corev1.CSIPersistentVolumeSource{Driver: "csi.pv", VolumeHandle: pvc.Spec.VolumeName}}}}, nil))
		}
		must(st.Create(pvc, nil))
	}
	for i := 0; i < 2; i++ {
		np := &v1.NodePool{ObjectMeta: metav1.ObjectMeta{Name: fmt.Sprintf("pool-%d", i)}}
		np.Spec.Template.Spec.NodeClassRef = &v1.NodeClassReference{Group: "karpenter.test.sh", Kind: "TestNodeClass", Name: "default"}
		must(st.Create(np, nil))
	}
	ds := &appsv1.DaemonSet{ObjectMeta: metav1.ObjectMeta{Name: "ds-0", Namespace: "default"},
		Spec: appsv1.DaemonSetSpec{Selector: &metav1.LabelSelector{MatchLabels: map[string]string{"ds": "0"}},
			Template: corev1.PodTemplateSpec{ObjectMeta: metav1.ObjectMeta{Labels: map[string]string{"ds": "0"}},
				Spec: corev1.PodSpec{Containers: []corev1.Container{{Name: "c", Image: "x", Resources: corev1.ResourceRequirements{Requests: corev1.ResourceList{corev1.ResourceCPU: resource.MustParse("100m")}}}}}}}}
	must(st.Create(ds, nil))
}

func must(o client.Object, err error) client.Object {
	if err != nil {
		panic(err)
	}
	return o
}

func (p *stateProfile) pickObj(gvk schema.GroupVersionKind, kind string) client.Object {
	l := p.s.store.List(gvk)
	if len(l) == 0 {
		return nil
	}
	return l[p.ch.Pick(kind, len(l))]
}

func (p *stateProfile) note(format string, a ...interface{}) {
	m := fmt.Sprintf(format, a...)
	p.ops = append(p.ops, m)
	p.s.Logf("op   %s", m)
}

// op performs one random environment operation on the API.
func (p *stateProfile) op() {
	st := p.s.store
	switch p.ch.Pick("state.op", 18) - 1 {
	case -1: // no operation (the minimiser's default)
	case 0, 1: // create NodeClaim (unlaunched)
		p.nNC++
		nc := &v1.NodeClaim{ObjectMeta: metav1.ObjectMeta{Name: fmt.Sprintf("nc-%d", p.nNC), Finalizers: []string{v1.TerminationFinalizer},
			Labels: map[string]string{v1.NodePoolLabelKey: fmt.Sprintf("pool-%d", p.ch.Pick("state.pool", 2))}}}
		nc.Spec.NodeClassRef = &v1.NodeClassReference{Group: "karpenter.test.sh", Kind: "TestNodeClass", Name: "default"}
		if p.ch.Pick("state.unmanagednc", 8) == 0 {
			nc.Spec.NodeClassRef.Kind = "OtherNodeClass"
		}
		must(st.Create(nc, nil))
		p.note("create NodeClaim %s", nc.Name)
	case 2, 3: // launch a NodeClaim: provider id, capacity, labels
		o := p.pickObj(gvkNodeClaim, "state.pick")
		if o == nil {
			return
		}
		nc := o.(*v1.NodeClaim)
		if nc.Status.ProviderID != "" {
			return // a NodeClaim is launched once
		}
		it := p.e.CP.Catalog[p.ch.Pick("state.it", len(p.e.CP.Catalog))]
		of := it.Offerings[p.ch.Pick("state.of", len(it.Offerings))]
		pid := fmt.Sprintf("sim://%s-%d", nc.Name, p.ch.Pick("state.pidv", 2))
		st.Mutate(gvkNodeClaim, keyOf(nc), func(o client.Object) {
			n := o.(*v1.NodeClaim)
			n.Status.ProviderID = pid
			n.Status.Capacity = it.Capacity
			n.Status.Allocatable = it.Allocatable()
			n.Labels[corev1.LabelInstanceTypeStable] = it.Name
			n.Labels[corev1.LabelTopologyZone] = of.Zone()
			n.Labels[v1.CapacityTypeLabelKey] = of.CapacityType()
			n.StatusConditions().SetTrue(v1.ConditionTypeLaunched)
		})
		p.note("launch NodeClaim %s as %s pid=%s", nc.Name, it.Name, pid)
	case 4, 5: // create a Node (for a NodeClaim or unmanaged), possibly without provider id yet
		p.nNode++
		node := &corev1.Node{ObjectMeta: metav1.ObjectMeta{Name: fmt.Sprintf("node-%d", p.nNode), Labels: map[string]string{corev1.LabelHostname: fmt.Sprintf("node-%d", p.nNode)}}}
		it := p.e.CP.Catalog[p.ch.Pick("state.it", len(p.e.CP.Catalog))]
		node.Status.Capacity = it.Capacity
		node.Status.Allocatable = it.Allocatable()
		if o := p.pickObj(gvkNodeClaim, "state.pick"); o != nil && p.ch.Pick("state.managed", 4) != 0 {
			nc := o.(*v1.NodeClaim)
			node.Labels[v1.NodePoolLabelKey] = nc.Labels[v1.NodePoolLabelKey]
			if l := nc.Labels[corev1.LabelInstanceTypeStable]; l != "" && p.ch.Pick("state.itlabel", 4) != 0 {
				node.Labels[corev1.LabelInstanceTypeStable] = l
			}
			if p.ch.Pick("state.pidlater", 3) != 0 && !p.pidInUse(nc.Status.ProviderID) {
				node.Spec.ProviderID = nc.Status.ProviderID
				p.pidUsed[nc.Status.ProviderID] = true
			}
			node.Finalizers = []string{v1.TerminationFinalizer}
			node.Spec.Taints = []corev1.Taint{v1.UnregisteredNoExecuteTaint}
		} else if p.ch.Pick("state.unmanagedpid", 2) == 0 {
			node.Spec.ProviderID = "other://" + node.Name
		}
		must(st.Create(node, nil))
		p.note("create Node %s pid=%q pool=%q", node.Name, node.Spec.ProviderID, node.Labels[v1.NodePoolLabelKey])
	case 6: // node mutation: provider id assignment, registered/initialized label flips, instance type label
		o := p.pickObj(gvkNode, "state.pick")
		if o == nil {
			return
		}
		node := o.(*corev1.Node)
		what := p.ch.Pick("state.nodemut", 5)
		var ncs []client.Object
		if what == 0 {
			ncs = st.List(gvkNodeClaim)
		}
		st.Mutate(gvkNode, keyOf(node), func(o client.Object) {
			n := o.(*corev1.Node)
			switch what {
			case 0:
				if len(ncs) > 0 {
					nc := ncs[p.ch.Pick("state.pick", len(ncs))].(*v1.NodeClaim)
					// the cloud controller assigns a provider id once, to one node
					if nc.Status.ProviderID != "" && n.Spec.ProviderID == "" && !p.pidInUse(nc.Status.ProviderID) {
						n.Spec.ProviderID = nc.Status.ProviderID
						p.pidUsed[nc.Status.ProviderID] = true
						n.Labels[v1.NodePoolLabelKey] = nc.Labels[v1.NodePoolLabelKey]
						n.Labels[corev1.LabelInstanceTypeStable] = nc.Labels[corev1.LabelInstanceTypeStable]
					}
				}
			case 1: // Karpenter sets these labels once and never removes them
				n.Labels[v1.NodeRegisteredLabelKey] = "true"
				n.Spec.Taints = nil
			case 2:
				if n.Labels[v1.NodeRegisteredLabelKey] == "true" {
					n.Labels[v1.NodeInitializedLabelKey] = "true"
				}
			case 3:
				it := p.e.CP.Catalog[p.ch.Pick("state.it", len(p.e.CP.Catalog))]
				n.Labels[corev1.LabelInstanceTypeStable] = it.Name
				n.Status.Capacity = it.Capacity
				n.Status.Allocatable = it.Allocatable()
			case 4:
				n.Labels["flip"] = fmt.Sprint(p.s.step)
			}
		})
		p.note("mutate Node %s what=%d", node.Name, what)
	case 7, 8, 9: // create a pod (possibly bound), with optional host ports, volumes, anti-affinity, daemonset owner
		p.nPod++
		name := fmt.Sprintf("pod-%d", p.nPod)
		if p.ch.Pick("state.reuse", 4) == 0 && p.nPod > 1 {
			name = fmt.Sprintf("pod-%d", 1+p.ch.Pick("state.reusen", p.nPod-1))
		}
		if st.Get(gvkPod, types.NamespacedName{Namespace: "default", Name: name}) != nil {
			return
		}
		pod := p.genPod(name)
		// a name is only reused by the same workload (StatefulSet-like): same spec, possibly another node
		if prev := p.podSpecs[name]; prev != nil {
			pod = prev.DeepCopy()
		} else {
			p.podSpecs[name] = pod.DeepCopy()
		}
		if o := p.pickObj(gvkNode, "state.pick"); o != nil && p.ch.Pick("state.bound", 4) != 0 && trackable(o.(*corev1.Node)) {
			pod.Spec.NodeName = o.GetName()
		}
		must(st.Create(pod, nil))
		p.note("create Pod %s node=%q", pod.Name, pod.Spec.NodeName)
	case 10: // bind / complete / annotate a pod
		o := p.pickObj(gvkPod, "state.pick")
		if o == nil {
			return
		}
		pod := o.(*corev1.Pod)
		what := p.ch.Pick("state.podmut", 4)
		var node client.Object
		if what == 0 && pod.Spec.NodeName == "" {
			node = p.pickObj(gvkNode, "state.pick")
			if node != nil && !trackable(node.(*corev1.Node)) {
				node = nil
			}
		}
		st.Mutate(gvkPod, keyOf(pod), func(o client.Object) {
			q := o.(*corev1.Pod)
			switch what {
			case 0:
				if node != nil {
					q.Spec.NodeName = node.GetName()
				}
			case 1:
				q.Status.Phase = corev1.PodSucceeded
			case 2:
				if q.Annotations == nil {
					q.Annotations = map[string]string{}
				}
				q.Annotations[corev1.PodDeletionCost] = fmt.Sprint([]int{-100, 0, 50, 1000}[p.ch.Pick("state.cost", 4)])
			case 3:
				q.Status.Phase = corev1.PodRunning
			}
		})
		p.note("mutate Pod %s what=%d", pod.Name, what)
	case 11: // delete a pod
		o := p.pickObj(gvkPod, "state.pick")
		if o == nil {
			return
		}
		st.Remove(gvkPod, keyOf(o), nil)
		p.note("delete Pod %s", o.GetName())
	case 12: // delete a node (finalizer => terminating first)
		o := p.pickObj(gvkNode, "state.pick")
		if o == nil {
			return
		}
		if o.GetDeletionTimestamp() != nil || p.ch.Pick("state.hard", 3) == 0 {
			st.Remove(gvkNode, keyOf(o), nil)
			p.note("remove Node %s", o.GetName())
		} else {
			_ = st.Delete(o, DeleteOpts{}, nil)
			p.note("delete Node %s", o.GetName())
		}
	case 13: // delete a nodeclaim
		o := p.pickObj(gvkNodeClaim, "state.pick")
		if o == nil {
			return
		}
		if o.GetDeletionTimestamp() != nil || p.ch.Pick("state.hard", 3) == 0 {
			st.Remove(gvkNodeClaim, keyOf(o), nil)
			p.note("remove NodeClaim %s", o.GetName())
		} else {
			_ = st.Delete(o, DeleteOpts{}, nil)
			p.note("delete NodeClaim %s", o.GetName())
		}
	case 14: // CSINode limits for a node
		o := p.pickObj(gvkNode, "state.pick")
		if o == nil || st.Get(gvkCSINode, keyOf(o)) != nil {
			return
		}
		must(st.Create(&storagev1.CSINode{ObjectMeta: metav1.ObjectMeta{Name: o.GetName()},
			Spec: storagev1.CSINodeSpec{Drivers: []storagev1.CSINodeDriver{{Name: "csi.sc-a", NodeID: "x", Allocatable: &storagev1.VolumeNodeResources{Count: ptr.To(int32(2 + p.ch.Pick("state.lim", 3)))}}}}}, nil))
		for p.s.cache.Oldest(gvkCSINode) != nil {
			p.s.Mgr.Deliver(gvkCSINode) // CSINode is not a kind C11 quantifies over: no lag for it
		}
		// the kubelet updates the Node (csi nodeid annotation) when a driver registers, so a Node event
		// always follows; CSINode itself is not one of the kinds C11 quantifies over
		st.Mutate(gvkNode, keyOf(o), func(o client.Object) {
			n := o.(*corev1.Node)
			if n.Annotations == nil {
				n.Annotations = map[string]string{}
			}
			n.Annotations["csi.volume.kubernetes.io/nodeid"] = "{\"csi.sc-a\":\"x\"}"
		})
		p.note("create CSINode %s", o.GetName())
	case 15: // nodeclaim condition / label update (no identity change)
		o := p.pickObj(gvkNodeClaim, "state.pick")
		if o == nil {
			return
		}
		st.Mutate(gvkNodeClaim, keyOf(o), func(o client.Object) {
			n := o.(*v1.NodeClaim)
			switch p.ch.Pick("state.ncmut", 3) {
			case 0:
				n.StatusConditions().SetTrue(v1.ConditionTypeRegistered)
			case 1:
				n.StatusConditions().SetTrue(v1.ConditionTypeInitialized)
			case 2:
				if n.Annotations == nil {
					n.Annotations = map[string]string{}
				}
				n.Annotations["touch"] = fmt.Sprint(p.s.step)
			}
		})
		p.note("mutate NodeClaim %s", o.GetName())
	case 16: // a bound pod is deleted and re-created at once under the same name on another node (StatefulSet-like);
		// Karpenter never observes the gap, and the new node is often touched right afterwards
		var bound []client.Object
		for _, o := range st.List(gvkPod) {
			if o.(*corev1.Pod).Spec.NodeName != "" {
				bound = append(bound, o)
			}
		}
		var nodes []client.Object
		for _, o := range st.List(gvkNode) {
			if trackable(o.(*corev1.Node)) && o.GetDeletionTimestamp() == nil {
				nodes = append(nodes, o)
			}
		}
		if len(bound) == 0 || len(nodes) < 2 {
			return
		}
		old := bound[p.ch.Pick("state.pick", len(bound))].(*corev1.Pod)
		dst := nodes[p.ch.Pick("state.pick", len(nodes))]
		if dst.GetName() == old.Spec.NodeName {
			return
		}
		pod := p.podSpecs[old.Name]
		if pod == nil {
			return
		}
		pod = pod.DeepCopy()
		pod.Spec.NodeName = dst.GetName()
		st.Remove(gvkPod, keyOf(old), nil)
		must(st.Create(pod, nil))
		touched := false
		if p.ch.Pick("state.touchdst", 2) == 1 {
			touched = true
			st.Mutate(gvkNode, keyOf(dst), func(o client.Object) { o.(*corev1.Node).Labels["flip"] = fmt.Sprint(p.s.step) })
		}
		p.note("re-create Pod %s from node %s on node %s (destination touched=%v)", old.Name, old.Spec.NodeName, dst.GetName(), touched)
	}
}

// trackable: cluster state deliberately ignores a managed Node until it has a provider id and an
// instance-type label; the kube-scheduler does not bind pods to such a node in practice (it still
// carries the unregistered taint), and a pod bound there would keep its informer in a retry loop
// that is an in-flight update, not a settled state.
func trackable(n *corev1.Node) bool {
	if n.Labels[v1.NodePoolLabelKey] == "" {
		return true
	}
	return n.Spec.ProviderID != "" && (n.Labels[corev1.LabelInstanceTypeStable] != "" || n.Labels[v1.NodeInitializedLabelKey] != "")
}

// pidInUse: a provider id belongs to one node name for the whole history (the node name is derived
// from the instance), so it is never handed to a second Node object, not even after the first is gone.
func (p *stateProfile) pidInUse(pid string) bool {
	if pid == "" {
		return false
	}
	if p.pidUsed[pid] {
		return true
	}
	for _, o := range p.s.store.List(gvkNode) {
		if o.(*corev1.Node).Spec.ProviderID == pid {
			return true
		}
	}
	return false
}

func (p *stateProfile) genPod(name string) *corev1.Pod {
	ch := p.ch
	pod := &corev1.Pod{ObjectMeta: metav1.ObjectMeta{Name: name, Namespace: "default", Labels: map[string]string{"app": fmt.Sprintf("a%d", ch.Pick("state.app", 3))}}}
	cpu := []string{"100m", "250m", "1", "2"}[ch.Pick("state.cpu", 4)]
	c := corev1.Container{Name: "c", Image: "x", Resources: corev1.ResourceRequirements{
		Requests: corev1.ResourceList{corev1.ResourceCPU: resource.MustParse(cpu), corev1.ResourceMemory: resource.MustParse("128Mi")},
		Limits:   corev1.ResourceList{corev1.ResourceCPU: resource.MustParse("4")}}}
	if ch.Pick("state.hp", 4) == 0 {
		c.Ports = []corev1.ContainerPort{{ContainerPort: 80, HostPort: int32(8000 + ch.Pick("state.hpn", 3)), Protocol: corev1.ProtocolTCP}}
	}
	pod.Spec.Containers = []corev1.Container{c}
	if ch.Pick("state.vol", 3) == 0 {
		n := 1 + ch.Pick("state.voln", 2)
		for i := 0; i < n; i++ {
			pvc := fmt.Sprintf("pvc-%d", ch.Pick("state.pvc", 5))
			pod.Spec.Volumes = append(pod.Spec.Volumes, corev1.Volume{Name: fmt.Sprintf("v%d", i), VolumeSource: corev1.VolumeSource{PersistentVolumeClaim: &corev1.PersistentVolumeClaimVolumeSource{ClaimName: pvc}}})
		}
	}
	if ch.Pick("state.anti", 4) == 0 {
		pod.Spec.Affinity = &corev1.Affinity{PodAntiAffinity: &corev1.PodAntiAffinity{RequiredDuringSchedulingIgnoredDuringExecution: []corev1.PodAffinityTerm{{
			TopologyKey: corev1.LabelHostname, LabelSelector: &metav1.LabelSelector{MatchLabels: map[string]string{"app": pod.Labels["app"]}}}}}}
	}
	if ch.Pick("state.ds", 5) == 0 {
		pod.OwnerReferences = []metav1.OwnerReference{{APIVersion: "apps/v1", Kind: "DaemonSet", Name: "ds-0", UID: "ds-uid", Controller: ptr.To(true)}}
		pod.Labels["ds"] = "0"
	}
	if ch.Pick("state.pcost", 4) == 0 {
		pod.Annotations = map[string]string{corev1.PodDeletionCost: fmt.Sprint([]int{-100, 50, 1000}[ch.Pick("state.cost", 3)])}
	}
	return pod
}

// check settles the system (without letting periodic timers run) and compares the incremental
// state with a fresh recomputation.
func (p *stateProfile) check(tag string) {
	s := p.s
	s.SettleMode = true
	ok := s.Settle(3000)
	for i := 0; i < 2 && ok; i++ {
		// give every failed reconcile one more attempt against the now complete view; whatever is
		// still failing afterwards is a fixed point, not an in-flight update
		if s.FlushRetries() == 0 {
			break
		}
		ok = s.Settle(3000)
	}
	s.SettleMode = false
	if !ok || len(s.PendingRetries()) > 0 {
		// some reconcile is still failing and backing off: an update is in flight, not a settled state
		s.Stat("c11.unsettled")
		return
	}
	ctx := s.EnvCtx()
	ref := state.NewCluster(s.Clock, p.e.C, p.e.CP)
	refCost := cost.NewClusterCost(ctx, p.e.CP, p.e.C)
	ncCtl := informer.NewNodeClaimController(p.e.C, p.e.CP, ref, refCost)
	nodeCtl := informer.NewNodeController(p.e.C, ref)
	podCtl := informer.NewPodController(p.e.C, ref)
	dsCtl := informer.NewDaemonSetController(p.e.C, ref)
	feed := func(gvk schema.GroupVersionKind, rec func(reconcile.Request) error) {
		for _, o := range s.store.List(gvk) {
			if err := rec(reconcile.Request{NamespacedName: keyOf(o)}); err != nil {
				s.Stat("c11.ref.err")
			}
		}
	}
	// two passes so that objects that depend on each other are complete regardless of order
	for pass := 0; pass < 2; pass++ {
		feed(gvkNodeClaim, func(r reconcile.Request) error { _, err := ncCtl.Reconcile(ctx, r); return err })
		feed(gvkNode, func(r reconcile.Request) error { _, err := nodeCtl.Reconcile(ctx, r); return err })
		feed(gvkPod, func(r reconcile.Request) error { _, err := podCtl.Reconcile(ctx, r); return err })
		feed(gvkDS, func(r reconcile.Request) error { _, err := dsCtl.Reconcile(ctx, r); return err })
	}
	p.checked++
	s.Stat("c11.compared")
	for _, d := range diffClusters(p.e.Cluster, ref, []string{"pool-0", "pool-1"}) {
		s.Violate("C11", "state-differential/"+d.class, "%s check: incremental cluster state differs from fresh recomputation: %s", tag, d.text)
	}
}

func rlString(rl corev1.ResourceList) string {
	var keys []string
	for k, v := range rl {
		if v.IsZero() {
			continue
		}
		keys = append(keys, fmt.Sprintf("%s=%s", k, v.String()))
	}
	sort.Strings(keys)
	return strings.Join(keys, ",")
}

func snapshotNode(n *state.StateNode) map[string]string {
	m := map[string]string{}
	m["hasNode"] = fmt.Sprint(n.Node != nil)
	m["hasNodeClaim"] = fmt.Sprint(n.NodeClaim != nil)
	if n.Node != nil {
		m["nodeRV"] = n.Node.ResourceVersion
		m["nodeName"] = n.Node.Name
	}
	if n.NodeClaim != nil {
		m["ncRV"] = n.NodeClaim.ResourceVersion
		m["ncName"] = n.NodeClaim.Name
	}
	m["podRequests"] = rlString(n.PodRequests())
	m["podLimits"] = rlString(n.PodLimits())
	m["dsRequests"] = rlString(n.DaemonSetRequests())
	m["dsLimits"] = rlString(n.DaemonSetLimits())
	m["hostPorts"] = fmt.Sprintf("%v", *n.HostPortUsage())
	m["volumes"] = fmt.Sprintf("%v", *n.VolumeUsage())
	m["disruptionCost"] = fmt.Sprintf("%.4f", n.DisruptionCost())
	m["marked"] = fmt.Sprint(n.MarkedForDeletion())
	m["registered"] = fmt.Sprint(n.Registered())
	m["initialized"] = fmt.Sprint(n.Initialized())
	if n.Node != nil || n.NodeClaim != nil {
		m["capacity"] = rlString(n.Capacity())
		m["allocatable"] = rlString(n.Allocatable())
	}
	return m
}

func snapshotCluster(c *state.Cluster, pools []string) map[string]map[string]string {
	out := map[string]map[string]string{}
	for n := range c.Nodes() {
		out["node/"+n.ProviderID()] = snapshotNode(n)
	}
	for _, np := range pools {
		m := map[string]string{}
		m["resources"] = rlString(c.NodePoolResourcesFor(np))
		a, d, pd := c.NodePoolState.GetNodeCount(np)
		m["counts"] = fmt.Sprintf("active=%d deleting=%d pending=%d", a, d, pd)
		out["pool/"+np] = m
	}
	anti := []string{}
	c.ForPodsWithAntiAffinity(func(p *corev1.Pod, n *corev1.Node) bool {
		anti = append(anti, p.Namespace+"/"+p.Name+"@"+n.Name)
		return true
	})
	sort.Strings(anti)
	out["antiaffinity"] = map[string]string{"pods": strings.Join(anti, " ")}
	return out
}

type stateDiff struct {
	class string
	text  string
}

var nodeUsageFields = map[string]bool{"podRequests": true, "podLimits": true, "dsRequests": true, "dsLimits": true, "hostPorts": true, "volumes": true, "disruptionCost": true}

// diffClusters returns one entry per differing key, classified by what differs so that a
// recorded known finding never hides a different discrepancy.
func diffClusters(a, b *state.Cluster, pools []string) []stateDiff {
	sa, sb := snapshotCluster(a, pools), snapshotCluster(b, pools)
	keys := map[string]bool{}
	for k := range sa {
		keys[k] = true
	}
	for k := range sb {
		keys[k] = true
	}
	var ks []string
	for k := range keys {
		ks = append(ks, k)
	}
	sort.Strings(ks)
	var out []stateDiff
	for _, k := range ks {
		ma, oka := sa[k]
		mb, okb := sb[k]
		if !oka {
			out = append(out, stateDiff{"missing-entry", fmt.Sprintf("%s: missing in incremental state", k)})
			continue
		}
		if !okb {
			out = append(out, stateDiff{"extra-entry", fmt.Sprintf("%s: only in incremental state (%v)", k, ma)})
			continue
		}
		var fs, parts []string
		for f := range ma {
			if ma[f] != mb[f] {
				fs = append(fs, f)
			}
		}
		if len(fs) == 0 {
			continue
		}
		sort.Strings(fs)
		onlyUsage := true
		for _, f := range fs {
			parts = append(parts, fmt.Sprintf("%s.%s: incremental=%q fresh=%q", k, f, ma[f], mb[f]))
			if !nodeUsageFields[f] {
				onlyUsage = false
			}
		}
		class := "fields:" + strings.Join(fs, ",")
		switch {
		case strings.HasPrefix(k, "node/") && onlyUsage && ma["hasNode"] == "false" && mb["hasNode"] == "false":
			// the Node object is gone, the NodeClaim remains, and usage derived from the Node is still held
			class = "node-usage-retained-after-node-delete"
		case len(fs) == 1 && fs[0] == "disruptionCost" && ma["hasNode"] == "true":
			class = "disruption-cost-only"
		}
		if len(parts) > 4 {
			parts = append(parts[:4], fmt.Sprintf("(+%d more)", len(parts)-4))
		}
		out = append(out, stateDiff{class, strings.Join(parts, "; ")})
	}
	return out
}

var _ = v1alpha1.Group

// StateDifferential compares the incremental cluster state of a running profile with a fresh
// state.Cluster built by the real informers from the API objects. The caller must have settled the
// system. Deletion marks made by the disruption queue are not part of the API objects, so nodes
// that are marked in the live state are skipped.
func StateDifferential(e *Env, pools []string, where string) {
	s := e.S
	ctx := s.EnvCtx()
	ref := state.NewCluster(s.Clock, e.C, e.CP)
	refCost := cost.NewClusterCost(ctx, e.CP, e.C)
	ncCtl := informer.NewNodeClaimController(e.C, e.CP, ref, refCost)
	nodeCtl := informer.NewNodeController(e.C, ref)
	podCtl := informer.NewPodController(e.C, ref)
	dsCtl := informer.NewDaemonSetController(e.C, ref)
	for pass := 0; pass < 2; pass++ {
		for _, o := range s.store.List(gvkNodeClaim) {
			_, _ = ncCtl.Reconcile(ctx, reconcile.Request{NamespacedName: keyOf(o)})
		}
		for _, o := range s.store.List(gvkNode) {
			_, _ = nodeCtl.Reconcile(ctx, reconcile.Request{NamespacedName: keyOf(o)})
		}
		for _, o := range s.store.List(gvkPod) {
			_, _ = podCtl.Reconcile(ctx, reconcile.Request{NamespacedName: keyOf(o)})
		}
		for _, o := range s.store.List(gvkDS) {
			_, _ = dsCtl.Reconcile(ctx, reconcile.Request{NamespacedName: keyOf(o)})
		}
	}
	marked := false
	for n := range e.Cluster.Nodes() {
		if n.MarkedForDeletion() && !n.Deleted() {
			marked = true
		}
	}
	if marked {
		s.Stat("c11.live.skipped-marked")
		return
	}
	s.Probe("c11-live-differential")
	for _, d := range diffClusters(e.Cluster, ref, pools) {
		s.Violate("C11", "state-differential/"+d.class, "%s: incremental cluster state differs from fresh recomputation: %s", where, d.text)
	}
}

// SettleForDifferential brings the system to a quiescent point without letting periodic timers run.
func SettleForDifferential(s *Sim) bool {
	s.SettleMode = true
	ok := s.Settle(4000)
	for i := 0; i < 2 && ok; i++ {
		if s.FlushRetries() == 0 {
			break
		}
		ok = s.Settle(4000)
	}
	s.SettleMode = false
	if !ok {
		return false
	}
	for _, t := range s.PendingRetries() {
		if strings.HasPrefix(t.Name, "retry state.") {
			return false // a state informer is still backing off: an update is in flight
		}
	}
	return true
}
