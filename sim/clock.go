package sim

// The injected clock.Clock. Now() is the bubble's fake time; Sleep/After/NewTimer register a
// simulator timer so that waking a sleeper is a decision of the simulator.

import (
	"runtime"
	"time"

	"k8s.io/utils/clock"
)

type SimClock struct {
	sim *Sim
	// LazyRule marks idle-poll timers that the simulator never needs to fire on its own.
	LazyRule func(t *Task, d time.Duration, nth int) bool
}

var _ clock.WithTicker = (*SimClock)(nil)

func NewSimClock(s *Sim) *SimClock { return &SimClock{sim: s} }

func (c *SimClock) Now() time.Time                  { return time.Now() }
func (c *SimClock) Since(t time.Time) time.Duration { return time.Since(t) }

func (c *SimClock) Sleep(d time.Duration) {
	t := c.sim.taskOfGoroutine()
	if t == nil {
		time.Sleep(d)
		return
	}
	if t.Inc != c.sim.inc {
		runtime.Goexit()
	}
	ch := make(chan struct{})
	c.sim.mu.Lock()
	t.sleepN++
	c.sim.mu.Unlock()
	c.sim.AddTimer(t.ID, d, "wake "+t.Name(), false, func() { close(ch) })
	<-ch
	c.sim.mu.Lock()
	t.sleepN--
	c.sim.mu.Unlock()
	if t.Inc != c.sim.inc {
		runtime.Goexit()
	}
}

func (c *SimClock) After(d time.Duration) <-chan time.Time {
	return c.NewTimer(d).C()
}

func (c *SimClock) Tick(d time.Duration) <-chan time.Time { return time.Tick(d) } //nolint

func (c *SimClock) NewTicker(d time.Duration) clock.Ticker { return realTicker{time.NewTicker(d)} }

type realTicker struct{ *time.Ticker }

func (r realTicker) C() <-chan time.Time { return r.Ticker.C }

type simTimer struct {
	c    *SimClock
	task *Task
	ch   chan time.Time
	t    *Timer
	lazy bool
}

func (c *SimClock) NewTimer(d time.Duration) clock.Timer {
	t := c.sim.taskOfGoroutine()
	if t == nil {
		return realTimer{time.NewTimer(d)}
	}
	st := &simTimer{c: c, task: t, ch: make(chan time.Time, 1)}
	st.arm(d)
	return st
}

func (st *simTimer) arm(d time.Duration) {
	t := st.task
	c := st.c
	nth, _ := t.Notes["timers"].(int)
	t.Notes["timers"] = nth + 1
	st.lazy = c.LazyRule != nil && c.LazyRule(t, d, nth)
	c.sim.mu.Lock()
	t.sleepN++
	c.sim.mu.Unlock()
	st.t = c.sim.AddTimer(t.ID, d, "timer "+t.Name(), st.lazy, func() {
		c.sim.mu.Lock()
		t.sleepN--
		c.sim.mu.Unlock()
		select {
		case st.ch <- time.Now():
		default:
		}
	})
}

func (st *simTimer) C() <-chan time.Time { return st.ch }
func (st *simTimer) Stop() bool {
	if st.c.sim.StopTimer(st.t) {
		st.c.sim.mu.Lock()
		st.task.sleepN--
		st.c.sim.mu.Unlock()
		return true
	}
	return false
}
func (st *simTimer) Reset(d time.Duration) bool {
	active := st.Stop()
	st.arm(d)
	return active
}

type realTimer struct{ *time.Timer }

func (r realTimer) C() <-chan time.Time { return r.Timer.C }

// LazyWaiting reports whether the task is blocked only on a lazy (idle poll) timer.
func (s *Sim) lazyWaiting(t *Task) bool {
	s.mu.Lock()
	defer s.mu.Unlock()
	if t.parkedN > 0 {
		return false
	}
	n, lazy := 0, 0
	for _, tm := range s.timers {
		if tm.dead || tm.Owner != t.ID {
			continue
		}
		n++
		if tm.Lazy {
			lazy++
		}
	}
	return n > 0 && n == lazy
}
