package sim

// The simulator kernel: tasks, parking at seams, simulated timers, the event loop, the event log.
// One Sim = one run = one synctest bubble.

import (
	"container/heap"
	"context"
	"fmt"
	"hash/fnv"
	"runtime"
	"sort"
	"strings"
	"sync"
	"sync/atomic"
	"testing/synctest"
	"time"

	"github.com/go-logr/logr"
	"k8s.io/client-go/util/workqueue"
	"sigs.k8s.io/controller-runtime/pkg/log"
	"sigs.k8s.io/controller-runtime/pkg/reconcile"
)

type FaultKind int

const (
	FNone FaultKind = iota
	FErrBefore
	FErrAfter
	FConflict
	FCrashAfter
)

func (f FaultKind) String() string {
	return [...]string{"none", "err.before", "err.after", "conflict", "crash.after"}[f]
}

type resume struct {
	kill  bool
	fault FaultKind
	slow  bool
	salt  uint64
}

// Call is one seam call of a task goroutine, parked until the simulator releases it.
type Call struct {
	Task  *Task
	Seam  string // api | cp
	Verb  string
	Kind  string
	Key   string
	Write bool
	Phase int // 0 request, 1 response (slow response)
	Idx   int // index among fault-eligible calls of this run (assigned at release)
	arr   int
	sib   int
	ch    chan resume
	res   resume
}

func (c *Call) String() string {
	ph := ""
	if c.Phase == 1 {
		ph = "/resp"
	}
	return fmt.Sprintf("%s.%s %s %s%s", c.Seam, c.Verb, c.Kind, c.Key, ph)
}

type Task struct {
	ID      int
	Ctrl    *Ctrl
	Req     reconcile.Request
	Inc     int
	Done    bool
	Result  reconcile.Result
	Err     error
	Panic   interface{}
	PanicSt string
	Start   time.Time
	StartSt int
	Atomic  bool // never parks (what-if actions)
	parkedN int
	sleepN  int
	Reads   []ReadRec
	Writes  []WriteRec
	Notes   map[string]interface{} // oracle scratch space
	calls   int
}

func (t *Task) Name() string {
	if t == nil {
		return "env"
	}
	return fmt.Sprintf("%s#%d(%s)", t.Ctrl.Name, t.ID, t.Req.NamespacedName.String())
}

type ReadRec struct {
	Verb string
	Kind string
	Key  string
	Objs []interface{} // immutable snapshots returned (client.Object or provider values)
	Err  error
	Step int
	At   time.Time
	EvSeq uint64 // store event sequence when the read executed
}

type WriteRec struct {
	Seam  string
	Verb  string
	Kind  string
	Key   string
	Obj   interface{}
	Err   error
	Fault FaultKind
	Step  int
	At    time.Time
}

type taskKey struct{}

func TaskFrom(ctx context.Context) *Task {
	t, _ := ctx.Value(taskKey{}).(*Task)
	return t
}

// ---- timers

type Timer struct {
	At    time.Time
	Owner int // task id or negative actor id
	Seq   int // per-owner sequence
	Fn    func()
	Lazy  bool
	Name  string
	dead  bool
	inc   int
	index int
}

type timerHeap []*Timer

func (h timerHeap) Len() int { return len(h) }
func (h timerHeap) Less(i, j int) bool {
	if !h[i].At.Equal(h[j].At) {
		return h[i].At.Before(h[j].At)
	}
	if h[i].Owner != h[j].Owner {
		return h[i].Owner < h[j].Owner
	}
	return h[i].Seq < h[j].Seq
}
func (h timerHeap) Swap(i, j int)       { h[i], h[j] = h[j], h[i]; h[i].index = i; h[j].index = j }
func (h *timerHeap) Push(x interface{}) { t := x.(*Timer); t.index = len(*h); *h = append(*h, t) }
func (h *timerHeap) Pop() interface{} {
	old := *h
	n := len(old)
	t := old[n-1]
	*h = old[:n-1]
	return t
}

// ---- Sim

type Violation struct {
	Property string `json:"property"`
	Oracle   string `json:"oracle"`
	Msg      string `json:"msg"`
	Step     int    `json:"step"`
	SimTime  string `json:"sim_time"`
}

func (v Violation) Signature() string { return v.Property + "/" + v.Oracle }

type Sim struct {
	Cfg   *RunConfig
	Ch    *Chooser
	Knobs Knobs

	mu        sync.Mutex
	parked    []*Call
	timers    timerHeap
	ownerSeq  map[int]int
	goids     map[uint64]*Task
	stallName string
	sib       map[uint64]int // goroutine -> 1 + piece of the workqueue.ParallelizeUntil worker (0: none)
	arrSeq    int
	start     time.Time
	step      int
	inc       int
	incCtx    context.Context
	incCancel context.CancelFunc
	baseCtx   context.Context

	tasks    map[int]*Task
	running  []*Task
	nextTask int
	cur      *Task
	LastRun  *Task // the task whose goroutine ran in the last step (kept after it finished)
	callIdx  int

	store *Store
	cache *Cache
	Mgr   *Manager
	Clock *SimClock

	actions []ActionSource
	observe []func()
	onTaskDone []func(*Task)
	onRestart  func()

	FaultsOn     bool
	SettleMode   bool
	TimeFilter   func(*Timer) bool
	pendingCrash bool
	faultStep    int

	logHash  uint64
	logN     int
	LogLines []string
	Stats    map[string]int
	Probes   map[string]int
	Viol     []Violation
	SchedSig uint64
	StateSig map[uint64]struct{}
	Fatal    string // framework trouble (exit 2)
	Sample   []string
}

type ActionSource interface {
	// Actions returns currently enabled actions in a canonical order.
	Actions() []Action
}

type Action struct {
	Name   string
	Weight int
	Do     func()
}

func NewSim(cfg *RunConfig, ch *Chooser) *Sim {
	s := &Sim{Cfg: cfg, Ch: ch, ownerSeq: map[int]int{}, goids: map[uint64]*Task{}, sib: map[uint64]int{}, tasks: map[int]*Task{},
		Stats: map[string]int{}, Probes: map[string]int{}, StateSig: map[uint64]struct{}{}}
	s.start = time.Now()
	s.logHash = 14695981039346656037
	s.FaultsOn = true
	activeSim.Store(s)
	return s
}

func (s *Sim) Now() time.Time         { return time.Now() }
func (s *Sim) Elapsed() time.Duration { return time.Since(s.start) }
func (s *Sim) Step() int              { return s.step }
func (s *Sim) Store() *Store          { return s.store }
func (s *Sim) Cache() *Cache          { return s.cache }
func (s *Sim) Incarnation() int       { return s.inc }

func (s *Sim) Logf(format string, a ...interface{}) {
	line := fmt.Sprintf("%05d %9.3fs ", s.step, s.Elapsed().Seconds()) + fmt.Sprintf(format, a...)
	h := fnv.New64a()
	h.Write([]byte(line))
	s.logHash = (s.logHash ^ h.Sum64()) * 1099511628211
	s.logN++
	if s.Cfg.KeepLog {
		s.LogLines = append(s.LogLines, line)
	} else {
		if len(s.LogLines) >= 400 {
			s.LogLines = append(s.LogLines[:0], s.LogLines[200:]...)
		}
		s.LogLines = append(s.LogLines, line)
	}
}

func (s *Sim) LogHash() uint64 { return s.logHash }

func (s *Sim) Violate(prop, oracle, format string, a ...interface{}) {
	v := Violation{Property: prop, Oracle: oracle, Msg: fmt.Sprintf(format, a...), Step: s.step, SimTime: s.Elapsed().String()}
	s.Logf("VIOLATION %s/%s: %s", prop, oracle, v.Msg)
	s.Viol = append(s.Viol, v)
}

func (s *Sim) Probe(name string) { s.Probes[name]++ }
func (s *Sim) Stat(name string)  { s.Stats[name]++ }

// ---- goroutine identity

// activeSim: the run in progress (one per process at a time). The workers of client-go's ParallelizeUntil are
// indistinguishable goroutines of one task that may park on identical calls (get NodePool, create NodeClaim with a
// generated name); the build overlay makes each report the piece it holds, which orders such siblings deterministically.
var activeSim atomic.Pointer[Sim]

func init() {
	workqueue.VerifPiece = func(piece int) {
		s := activeSim.Load()
		if s == nil {
			return
		}
		id := goid()
		s.mu.Lock()
		s.sib[id] = piece + 1
		s.mu.Unlock()
	}
}

func goid() uint64 {
	var buf [64]byte
	n := runtime.Stack(buf[:], false)
	// "goroutine 123 ["
	var id uint64
	for _, c := range buf[10:n] {
		if c < '0' || c > '9' {
			break
		}
		id = id*10 + uint64(c-'0')
	}
	return id
}

func (s *Sim) taskOfGoroutine() *Task {
	id := goid()
	s.mu.Lock()
	defer s.mu.Unlock()
	return s.goids[id]
}

// lock-holder detection: a seam call made from inside these functions must not park because
// the caller holds a mutex that other goroutines may block on (DESIGN 3.3).
var lockHolderPrefixes = []string{
	"sigs.k8s.io/karpenter/pkg/controllers/state.(*Cluster).",
	"sigs.k8s.io/karpenter/pkg/state/cost.(*ClusterCost).",
}

var pcCache sync.Map // uintptr -> bool

func underLock() bool {
	var pcs [48]uintptr
	n := runtime.Callers(3, pcs[:])
	for _, pc := range pcs[:n] {
		if v, ok := pcCache.Load(pc); ok {
			if v.(bool) {
				return true
			}
			continue
		}
		fn := runtime.FuncForPC(pc - 1)
		hit := false
		if fn != nil {
			name := fn.Name()
			for _, p := range lockHolderPrefixes {
				if strings.HasPrefix(name, p) {
					hit = true
				}
			}
		}
		pcCache.Store(pc, hit)
		if hit {
			return true
		}
	}
	return false
}

// Enter parks the calling task goroutine at a seam call until the simulator releases it.
// It returns the call with the simulator's decisions, or nil when the call runs inline.
func (s *Sim) Enter(ctx context.Context, seam, verb, kind, key string, write bool) *Call {
	t := TaskFrom(ctx)
	if t == nil {
		return nil
	}
	if t.Inc != s.inc {
		runtime.Goexit()
	}
	if t.Atomic || s.Cfg.NoPark || underLock() {
		return nil
	}
	c := &Call{Task: t, Seam: seam, Verb: verb, Kind: kind, Key: key, Write: write, ch: make(chan resume, 1)}
	s.parkCall(c)
	return c
}

func (s *Sim) parkCall(c *Call) {
	id := goid()
	s.mu.Lock()
	s.arrSeq++
	c.arr = s.arrSeq
	c.sib = s.sib[id]
	s.goids[id] = c.Task
	s.parked = append(s.parked, c)
	c.Task.parkedN++
	s.mu.Unlock()
	r := <-c.ch
	s.mu.Lock()
	c.Task.parkedN--
	s.mu.Unlock()
	if r.kill {
		runtime.Goexit()
	}
	c.res = r
}

// Leave is called after the operation executed; with a slow response the goroutine parks again.
func (s *Sim) Leave(c *Call) {
	if c != nil && c.res.fault == FCrashAfter {
		// single-fault sweep: the process dies right after this call took effect
		s.pendingCrash = true
		c.res.slow = true
	}
	if c == nil || !c.res.slow {
		return
	}
	c.Phase = 1
	c.ch = make(chan resume, 1)
	s.parkCall(c)
}

// ---- timers API

func (s *Sim) AddTimer(owner int, d time.Duration, name string, lazy bool, fn func()) *Timer {
	s.mu.Lock()
	defer s.mu.Unlock()
	s.ownerSeq[owner]++
	t := &Timer{At: time.Now().Add(d), Owner: owner, Seq: s.ownerSeq[owner], Fn: fn, Lazy: lazy, Name: name, inc: s.inc}
	heap.Push(&s.timers, t)
	return t
}

func (s *Sim) StopTimer(t *Timer) bool {
	s.mu.Lock()
	defer s.mu.Unlock()
	if t.dead {
		return false
	}
	t.dead = true
	if t.index >= 0 && t.index < len(s.timers) && s.timers[t.index] == t {
		heap.Remove(&s.timers, t.index)
	}
	return true
}

// nextTimer returns the earliest live non-lazy timer (lazy ones only if includeLazy).
func (s *Sim) nextTimer(includeLazy bool) *Timer {
	s.mu.Lock()
	defer s.mu.Unlock()
	var best *Timer
	for _, t := range s.timers {
		if t.dead || (t.Lazy && !includeLazy) {
			continue
		}
		if s.SettleMode && !(strings.HasPrefix(t.Name, "retry ") || t.Owner > 0) {
			continue
		}
		if best == nil || (timerHeap{t, best}).Less(0, 1) {
			best = t
		}
	}
	return best
}

func (s *Sim) fireTimer(t *Timer) {
	s.mu.Lock()
	if t.dead {
		s.mu.Unlock()
		return
	}
	t.dead = true
	if t.index >= 0 && t.index < len(s.timers) && s.timers[t.index] == t {
		heap.Remove(&s.timers, t.index)
	}
	s.mu.Unlock()
	t.Fn()
}

// AdvanceTo moves simulated time forward (never backwards).
func (s *Sim) AdvanceTo(at time.Time) {
	for {
		d := time.Until(at)
		if d <= 0 {
			return
		}
		if s.nativeBlocked() && d > time.Second {
			d = time.Second
		}
		time.Sleep(d)
		synctest.Wait()
	}
}

func (s *Sim) nativeBlocked() bool {
	s.mu.Lock()
	defer s.mu.Unlock()
	for _, t := range s.running {
		if !t.Done && t.parkedN == 0 && t.sleepN == 0 {
			return true
		}
	}
	return false
}

// ---- tasks

func (s *Sim) TaskCtx(t *Task) context.Context {
	return context.WithValue(s.incCtx, taskKey{}, t)
}

func (s *Sim) StartTask(c *Ctrl, req reconcile.Request) *Task {
	s.nextTask++
	t := &Task{ID: s.nextTask, Ctrl: c, Req: req, Inc: s.inc, Start: time.Now(), StartSt: s.step, Notes: map[string]interface{}{}}
	s.tasks[t.ID] = t
	s.mu.Lock()
	s.running = append(s.running, t)
	s.mu.Unlock()
	s.LastRun = t
	ctx := s.TaskCtx(t)
	for _, f := range s.Mgr.onTaskStart {
		f(t)
	}
	go func() {
		id := goid()
		s.mu.Lock()
		s.goids[id] = t
		s.mu.Unlock()
		defer func() {
			if r := recover(); r != nil {
				buf := make([]byte, 8192)
				n := runtime.Stack(buf, false)
				t.Panic = r
				t.PanicSt = string(buf[:n])
			}
			s.mu.Lock()
			t.Done = true
			delete(s.goids, id)
			s.mu.Unlock()
		}()
		t.Result, t.Err = c.Reconcile(ctx, req)
	}()
	return t
}

// RunAtomic runs fn as a task that never parks, on its own goroutine, and waits for it.
func (s *Sim) RunAtomic(name string, fn func(ctx context.Context)) *Task {
	s.nextTask++
	t := &Task{ID: s.nextTask, Ctrl: &Ctrl{Name: name}, Inc: s.inc, Start: time.Now(), StartSt: s.step, Atomic: true, Notes: map[string]interface{}{}}
	s.tasks[t.ID] = t
	ctx := s.TaskCtx(t)
	done := make(chan struct{})
	go func() {
		defer close(done)
		defer func() {
			if r := recover(); r != nil {
				buf := make([]byte, 8192)
				n := runtime.Stack(buf, false)
				t.Panic = r
				t.PanicSt = string(buf[:n])
			}
			t.Done = true
		}()
		fn(ctx)
	}()
	<-done
	delete(s.tasks, t.ID)
	return t
}

func (s *Sim) collectDone() {
	s.mu.Lock()
	var done []*Task
	keep := s.running[:0]
	for _, t := range s.running {
		if t.Done {
			done = append(done, t)
		} else {
			keep = append(keep, t)
		}
	}
	s.running = keep
	s.mu.Unlock()
	sort.Slice(done, func(i, j int) bool { return done[i].ID < done[j].ID })
	for _, t := range done {
		delete(s.tasks, t.ID)
		if s.cur == t {
			s.cur = nil
		}
		if t.Inc != s.inc {
			continue
		}
		if t.Panic != nil {
			s.Logf("task %s PANIC: %v", t.Name(), t.Panic)
			s.Stat("panic")
		}
		s.Mgr.taskDone(t)
		for _, f := range s.onTaskDone {
			f(t)
		}
	}
}

func (s *Sim) OnTaskDone(f func(*Task)) { s.onTaskDone = append(s.onTaskDone, f) }
func (s *Sim) AddObserver(f func())     { s.observe = append(s.observe, f) }
func (s *Sim) AddActions(a ActionSource) { s.actions = append(s.actions, a) }

func (s *Sim) RunningTasks() []*Task {
	s.mu.Lock()
	defer s.mu.Unlock()
	out := append([]*Task(nil), s.running...)
	return out
}

// ---- the loop

type cand struct {
	name string
	w    int
	do   func()
}

func (s *Sim) sortedParked() []*Call {
	s.mu.Lock()
	p := append([]*Call(nil), s.parked...)
	s.mu.Unlock()
	sort.Slice(p, func(i, j int) bool {
		a, b := p[i], p[j]
		if a.Task.ID != b.Task.ID {
			return a.Task.ID < b.Task.ID
		}
		if a.Verb != b.Verb {
			return a.Verb < b.Verb
		}
		if a.Kind != b.Kind {
			return a.Kind < b.Kind
		}
		if a.Key != b.Key {
			return a.Key < b.Key
		}
		if a.sib != b.sib {
			return a.sib < b.sib
		}
		return a.arr < b.arr
	})
	return p
}

func (s *Sim) removeParked(c *Call) {
	s.mu.Lock()
	for i, x := range s.parked {
		if x == c {
			s.parked = append(s.parked[:i], s.parked[i+1:]...)
			break
		}
	}
	s.mu.Unlock()
}

func (s *Sim) release(c *Call) {
	s.removeParked(c)
	r := resume{}
	if c.Phase == 0 {
		r = s.decideFaults(c)
	}
	s.cur = c.Task
	s.LastRun = c.Task
	s.SchedSig = (s.SchedSig ^ hashStr(c.Task.Ctrl.Name+c.Verb+c.Kind)) * 1099511628211
	s.Logf("run  %s %s%s", c.Task.Name(), c.String(), faultSuffix(r))
	c.Task.calls++
	c.ch <- r
}

func faultSuffix(r resume) string {
	out := ""
	if r.fault != FNone {
		out += " FAULT=" + r.fault.String()
	}
	if r.slow {
		out += " slow"
	}
	return out
}

func hashStr(x string) uint64 {
	h := fnv.New64a()
	h.Write([]byte(x))
	return h.Sum64()
}

// stalled: is c the run's stalled controller (fault kind ctrl.stall)? Only while faults are on.
func (s *Sim) stalled(c *Ctrl) bool {
	if s.Knobs.StallPick <= 0 || !s.FaultsOn || s.SettleMode {
		return false
	}
	if s.stallName == "" {
		names := make([]string, 0, len(s.Mgr.Ctrls))
		for _, x := range s.Mgr.Ctrls {
			names = append(names, x.Name)
		}
		if len(names) == 0 {
			return false
		}
		sort.Strings(names)
		s.stallName = names[(s.Knobs.StallPick-1)%len(names)]
		s.Stat("fault.ctrl.stall")
		s.Logf("env  stalled controller: %s", s.stallName)
	}
	return c.Name == s.stallName
}

// StepOnce performs one scheduling step. It returns false when nothing at all is enabled.
func (s *Sim) StepOnce() bool { return s.StepOpt(true) }

// StepOpt: with allowTime=false the step never advances time (due timers still fire) and
// returns false when only a time advance would be possible.
func (s *Sim) StepOpt(allowTime bool) bool {
	synctest.Wait()
	s.collectDone()
	for _, f := range s.observe {
		f()
	}
	s.step++
	if s.Cfg.progress != nil {
		s.Cfg.progress()
	}
	if s.pendingCrash {
		s.pendingCrash = false
		s.Crash()
		return true
	}

	parked := s.sortedParked()
	// 1. continue the current task unless the run wants a preemption here
	if s.cur != nil && !s.cur.Done {
		var mine []*Call
		for _, c := range parked {
			if c.Task == s.cur {
				mine = append(mine, c)
			}
		}
		if len(mine) > 0 && !s.Ch.Chance("preempt", s.Knobs.PSwitch) {
			s.release(mine[s.Ch.Pick("sibling", len(mine))])
			return true
		}
	}
	var cands []cand
	// 2. deliveries (oldest first)
	for _, gvk := range s.cache.PendingKinds() {
		gvk := gvk
		w := s.Knobs.WDeliver
		if ev := s.cache.Oldest(gvk); ev != nil && (s.step-ev.Step > s.Knobs.MaxLagSteps || time.Since(ev.At) > s.Knobs.MaxLag) {
			w *= 50
		}
		cands = append(cands, cand{"deliver " + gvk.Kind, w, func() { s.Mgr.Deliver(gvk) }})
	}
	// 3. ready tasks
	for _, r := range s.Mgr.Ready() {
		r := r
		w := r.c.weight(s.Knobs.WStart)
		if s.stalled(r.c) {
			w = max(1, w/40)
		}
		cands = append(cands, cand{"start " + r.c.Name + " " + r.req.String(), w, func() { s.Mgr.Start(r.c, r.req) }})
	}
	// 4. other parked calls
	for _, c := range parked {
		c := c
		cands = append(cands, cand{"resume " + c.Task.Name(), s.Knobs.WResume, func() { s.release(c) }})
	}
	// 5. environment and fault actions
	for _, src := range s.actions {
		for _, a := range src.Actions() {
			cands = append(cands, cand{a.Name, a.Weight, a.Do})
		}
	}
	// 6. due timers / time advance
	t := s.nextTimer(false)
	if t != nil && !(allowTime || !t.At.After(time.Now())) {
		t = nil
	}
	// advancing time while work is runnable stalls that work: a rare, per-run tunable event
	if t != nil && t.At.After(time.Now()) && len(cands) > 0 && !s.Ch.Chance("time.busy", s.Knobs.PTimeBusy) {
		t = nil
	}
	if t != nil {
		w := s.Knobs.WTime
		if len(cands) == 0 {
			w = 1
		}
		if !t.At.After(time.Now()) {
			w = s.Knobs.WDue
		}
		cands = append(cands, cand{"timer " + t.Name, w, func() {
			s.AdvanceTo(t.At)
			s.Logf("time %s", t.Name)
			s.fireTimer(t)
		}})
	}
	if t == nil && len(cands) == 0 {
		if s.nextTimer(false) != nil {
			return false // only a time advance is possible and the caller did not allow it
		}
		if s.nativeBlocked() {
			s.Stat("native.wait")
			if s.Stats["native.wait"] > 100000 {
				s.Fatal = "tasks stuck in native wait"
				return false
			}
			time.Sleep(time.Second)
			return true
		}
		if t := s.nextTimer(true); t != nil {
			// only lazy timers remain: the system is idle
			return false
		}
		return false
	}
	w := make([]int, len(cands))
	for i, c := range cands {
		w[i] = c.w
	}
	i := s.Ch.Weighted("act", w)
	c := cands[i]
	if !strings.HasPrefix(c.name, "resume ") && !strings.HasPrefix(c.name, "timer ") {
		s.Logf("act  %s", c.name)
	}
	c.do()
	return true
}

// PendingRetries returns the live error/requeue back-off timers.
func (s *Sim) PendingRetries() []*Timer {
	s.mu.Lock()
	defer s.mu.Unlock()
	var out []*Timer
	for _, t := range s.timers {
		if !t.dead && strings.HasPrefix(t.Name, "retry ") {
			out = append(out, t)
		}
	}
	sort.Slice(out, func(i, j int) bool { return (timerHeap{out[i], out[j]}).Less(0, 1) })
	return out
}

// FlushRetries fires every pending back-off timer once (advancing time as needed).
func (s *Sim) FlushRetries() int {
	ts := s.PendingRetries()
	for _, t := range ts {
		s.AdvanceTo(t.At)
		s.fireTimer(t)
	}
	return len(ts)
}

// Quiescent: no task running, nothing ready, nothing pending delivery.
func (s *Sim) Quiescent() bool {
	synctest.Wait()
	s.collectDone()
	for _, t := range s.RunningTasks() {
		if !s.lazyWaiting(t) {
			return false
		}
	}
	return len(s.Mgr.Ready()) == 0 && s.cache.PendingCount() == 0
}

// Settle runs default-biased steps until quiescent or the step bound is hit.
func (s *Sim) Settle(maxSteps int) bool {
	for i := 0; i < maxSteps; i++ {
		if s.Quiescent() {
			return true
		}
		if !s.StepOnce() {
			return s.Quiescent()
		}
	}
	return false
}

// ---- incarnation management

func (s *Sim) Boot(base context.Context, build func()) {
	s.baseCtx = log.IntoContext(base, logr.Discard())
	s.onRestart = build
	s.incCtx, s.incCancel = context.WithCancel(s.baseCtx)
	build()
}

// Crash kills every goroutine of the current incarnation at its next seam call, drops all
// in-memory state and starts a new incarnation from the API objects.
func (s *Sim) Crash() {
	s.Logf("CRASH incarnation %d", s.inc)
	s.Stat("fault.crash")
	old := s.inc
	s.inc++
	s.incCancel()
	// release parked goroutines with kill, fire sleepers
	for iter := 0; iter < 1000; iter++ {
		synctest.Wait()
		s.mu.Lock()
		p := s.parked
		s.parked = nil
		var tm []*Timer
		for _, t := range s.timers {
			if !t.dead && t.inc == old {
				tm = append(tm, t)
			}
		}
		s.mu.Unlock()
		if len(p) == 0 && len(tm) == 0 {
			break
		}
		for _, c := range p {
			c.ch <- resume{kill: true}
		}
		for _, t := range tm {
			if t.Owner > 0 { // task timers: wake the sleeper so that it dies at its next seam call
				s.fireTimer(t)
			} else {
				s.StopTimer(t)
			}
		}
	}
	synctest.Wait()
	s.mu.Lock()
	s.running = nil
	s.mu.Unlock()
	s.tasks = map[int]*Task{}
	s.cur = nil
	s.incCtx, s.incCancel = context.WithCancel(s.baseCtx)
	s.cache.Resync(s.store)
	s.onRestart()
}

// Shutdown releases everything at the end of a run so that the bubble can end.
func (s *Sim) Shutdown() {
	s.inc += 1000000
	s.incCancel()
	for iter := 0; iter < 1000; iter++ {
		synctest.Wait()
		s.mu.Lock()
		p := s.parked
		s.parked = nil
		var tm []*Timer
		for _, t := range s.timers {
			if !t.dead && t.Owner > 0 {
				tm = append(tm, t)
			}
		}
		s.mu.Unlock()
		if len(p) == 0 && len(tm) == 0 {
			break
		}
		for _, c := range p {
			c.ch <- resume{kill: true}
		}
		for _, t := range tm {
			s.fireTimer(t)
		}
	}
}
