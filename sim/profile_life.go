package sim

// Profile `life` (C14, C20; the liveness / expiration / GC clauses of C16): NodeClaims are created
// the way the provisioner creates them and taken through launch, registration, initialization,
// liveness and deletion by the REAL nodeclaim.lifecycle controller against the simulated provider
// and kubelet, under API / provider faults, cache lag, lost responses, restarts and clock jumps.

import (
	"sigs.k8s.io/karpenter/pkg/test/v1alpha1"
	"fmt"
	"sort"
	"strings"
	"time"

	corev1 "k8s.io/api/core/v1"
	"k8s.io/apimachinery/pkg/api/resource"
	metav1 "k8s.io/apimachinery/pkg/apis/meta/v1"
	"k8s.io/apimachinery/pkg/types"
	"k8s.io/utils/ptr"
	"sigs.k8s.io/controller-runtime/pkg/client"

	v1 "sigs.k8s.io/karpenter/pkg/apis/v1"
	"sigs.k8s.io/karpenter/pkg/cloudprovider"
	"sigs.k8s.io/karpenter/pkg/scheduling"
	"sigs.k8s.io/karpenter/pkg/state/nodepoolhealth"
)

const actorUser = -2000

type lifeProfile struct {
	resetStep map[types.UID]int // pool -> step of the last tracker reset seen through hook H2
	e   *Env
	s   *Sim
	ch  *Chooser
	k   *Kubelet
	nNC int
	ops []string

	pools []*v1.NodePool

	// C14
	creates   map[string]int              // uid/incarnation -> acknowledged successful creates
	iceSeen   map[types.UID]bool          // ICE answered for this UID
	condHist  map[types.UID]map[string]bool // uid -> condition type -> has been True in the server

	// C20
	win map[types.UID][]bool
}

func init() { Profiles["life"] = func() Profile { return &lifeProfile{} } }

func (p *lifeProfile) Name() string { return "life" }

func (p *lifeProfile) note(format string, a ...interface{}) {
	m := fmt.Sprintf(format, a...)
	if len(p.ops) < 200 {
		p.ops = append(p.ops, fmt.Sprintf("t=%s %s", p.s.Elapsed().Truncate(time.Second), m))
	}
	p.s.Logf("op   %s", m)
}

func (p *lifeProfile) build() {
	p.e.resetManager()
	p.e.AddLifecycle()
	p.e.AddReapers(false)
	p.win = map[types.UID][]bool{}
	np := p.e.Parts["npState"].(*nodepoolhealth.State)
	nodepoolhealth.VerifObserve = func(uid types.UID, op string, success bool) { p.onHealthEvent(np, uid, op, success) }
	p.s.Mgr.Resync()
}

func (p *lifeProfile) Run(s *Sim) {
	p.s, p.ch = s, s.Ch
	p.e = NewEnv(s)
	p.e.Opts = DefaultOptions()
	s.DrawKnobs()
	ch := s.Ch
	p.creates = map[string]int{}
	p.iceSeen = map[types.UID]bool{}
	p.condHist = map[types.UID]map[string]bool{}
	p.e.CP.Catalog = GenCatalog(ch, CatalogSpec{Types: 3 + ch.Pick("life.types", 5), Zones: []string{"zone-a", "zone-b", "zone-c"}[:1+ch.Pick("life.zones", 3)], Spot: true, GPU: ch.Pick("life.gpu", 2) == 0, Ties: true})
	p.e.CP.ListLag = true
	p.k = NewKubelet(p.e)
	if !s.Cfg.NoFaults {
		p.k.PNoRegister = []float64{0, 0.15, 0.4, 0.7}[ch.Pick("life.pnoreg", 4)]
		p.k.PNoTaint = []float64{0, 0.1}[ch.Pick("life.pnotaint", 2)]
		p.k.PStuckStartup = []float64{0, 0.1}[ch.Pick("life.pstuck", 2)]
		p.k.PLateDevices = []float64{0, 0.5}[ch.Pick("life.plate", 2)]
		p.k.PFlap = []float64{0, 0.2}[ch.Pick("life.pflap", 2)]
	} else {
		// fault-free runs still need registration failures for the health window to move
		p.k.PNoRegister = []float64{0, 0.3, 0.6}[ch.Pick("life.pnoreg", 3)]
	}
	s.Clock.LazyRule = nil
	p.e.CP.OnCreate = append(p.e.CP.OnCreate, p.onProviderCreate)
	s.store.OnWrite = append(s.store.OnWrite, p.onWrite)
	s.OnTaskDone(p.onTaskDone)
	s.AddObserver(p.observeHealthReset)
	defer func() { nodepoolhealth.VerifObserve = nil }()

	s.Boot(p.e.BaseCtx(), p.build)
	p.e.DefaultNodeClass()
	nPools := 1 + ch.Pick("life.npools", 2)
	for i := 0; i < nPools; i++ {
		np := p.e.MakeNodePool(fmt.Sprintf("pool-%d", i), ch)
		if ch.Pick("life.expire", 2) == 0 {
			np.Spec.Template.Spec.ExpireAfter = v1.MustParseNillableDuration([]string{"10m", "30m", "1h", "2h"}[ch.Pick("life.expirev", 4)])
		}
		p.pools = append(p.pools, must(s.store.Create(np, nil)).(*v1.NodePool))
	}
	s.SettleMode = true
	s.Settle(500)
	s.SettleMode = false

	// the script: operations at seeded instants over the horizon
	horizon := time.Duration(20+ch.Pick("life.horizon", 100)) * time.Minute
	nOps := 4 + ch.Pick("life.nops", 16)
	if s.Cfg.Forced != nil || s.Cfg.Variant == "small" {
		// single-fault sweeps use short baselines
		horizon = time.Duration(10+ch.Pick("life.horizon", 20)) * time.Minute
		nOps = 2 + ch.Pick("life.nops", 5)
	}
	for i := 0; i < nOps; i++ {
		at := time.Duration(ch.Pick("life.at", int(horizon/time.Second))) * time.Second
		if ch.Pick("life.burst", 3) == 0 {
			at = time.Duration(ch.Pick("life.at0", 60)) * time.Second
		}
		s.AddTimer(actorUser, at, fmt.Sprintf("user op %d", i), false, p.op)
	}
	faultStop := horizon + 5*time.Minute
	s.AddTimer(actorUser, faultStop, "faults stop", false, func() { s.FaultsOn = false; s.Logf("env  faults stop") })
	end := faultStop + 40*time.Minute
	maxSteps := 6000
	if s.Cfg.MaxSteps > 0 {
		maxSteps = s.Cfg.MaxSteps
	}
	if !s.Cfg.NoFaults && s.Knobs.PCrash > 0 {
		s.AddActions(crashSource{s})
	}
	for s.step < maxSteps && s.Elapsed() < end && len(s.Viol) == 0 && s.Fatal == "" {
		if !s.StepOnce() {
			break
		}
	}
	if s.step >= maxSteps {
		s.Stat("life.stepcap")
	}
	p.finalChecks()
	s.Sample = p.ops
}

type crashSource struct{ s *Sim }

func (c crashSource) Actions() []Action {
	if !c.s.FaultsOn || c.s.Knobs.PCrash <= 0 {
		return nil
	}
	if !c.s.Ch.Chance("crash?", c.s.Knobs.PCrash) {
		return nil
	}
	return []Action{{Name: "crash", Weight: 1000000, Do: c.s.Crash}}
}

func (p *lifeProfile) op() {
	ch := p.ch
	st := p.s.store
	switch ch.Pick("life.op", 12) - 1 {
	case 9, 10: // the instance disappears out from under Karpenter (spot interruption, manual termination)
		live := p.e.CP.LiveInstances()
		if len(live) == 0 {
			return
		}
		inst := live[ch.Pick("life.pick", len(live))]
		inst.Terminating, inst.Gone, inst.GoneAt = true, true, p.s.Now()
		p.note("instance %s of %s vanishes", inst.ID, inst.NodeClaim)
		p.s.Stat("env.instance.vanish")
		if kn := p.k.Nodes[inst.ID]; kn != nil && kn.Registered && ch.Pick("life.vanish.notready", 2) == 0 {
			// the node agent stops reporting some time later
			key := client.ObjectKey{Name: kn.Name}
			p.s.AddTimer(actorKubelet, p.k.delay("life.vanish.delay", 3*time.Minute), "node lease expires "+kn.Name, false, func() {
				st.Mutate(gvkNode, key, func(o client.Object) { setNodeReady(o.(*corev1.Node), false, st.now()) })
			})
		}
	case -1:
	case 0, 1, 2, 3, 4: // the provisioner creates a NodeClaim
		pool := p.pools[ch.Pick("life.pool", len(p.pools))]
		cur := st.Get(gvkNodePool, keyOf(pool))
		if cur == nil {
			return
		}
		p.nNC++
		nc := p.e.MakeNodeClaim(fmt.Sprintf("nc-%d", p.nNC), cur.(*v1.NodePool), ch)
		must(st.Create(nc, nil))
		p.note("create NodeClaim %s pool=%s", nc.Name, pool.Name)
	case 5: // user deletes a NodeClaim
		l := st.List(gvkNodeClaim)
		if len(l) == 0 {
			return
		}
		o := l[ch.Pick("life.pick", len(l))]
		_ = st.Delete(o, DeleteOpts{}, nil)
		p.note("user deletes NodeClaim %s", o.GetName())
	case 6: // NodePool template edit or NodeClass edit (generation bump => registration health reset)
		if ch.Pick("life.editnodeclass", 3) == 2 {
			ncl := &v1alpha1.TestNodeClass{}
			ncl.Name = "default"
			st.Mutate(st.GVK(ncl), keyOf(ncl), func(o client.Object) {
				c := o.(*v1alpha1.TestNodeClass)
				if c.Spec.Tags == nil {
					c.Spec.Tags = map[string]string{}
				}
				c.Spec.Tags["rev"] = fmt.Sprint(p.s.step)
			})
			p.note("edit NodeClass default")
			return
		}
		pool := p.pools[ch.Pick("life.pool", len(p.pools))]
		st.Mutate(gvkNodePool, keyOf(pool), func(o client.Object) {
			np := o.(*v1.NodePool)
			if np.Spec.Template.Labels == nil {
				np.Spec.Template.Labels = map[string]string{}
			}
			np.Spec.Template.Labels["rev"] = fmt.Sprint(p.s.step)
		})
		p.note("edit NodePool %s template", pool.Name)
	case 7: // clock jump
		if p.s.FaultsOn && !p.s.Cfg.NoFaults {
			d := time.Duration(1+ch.Pick("life.jump", 20)) * time.Minute
			p.s.Stat("fault.clock.jump")
			p.note("clock jump +%v", d)
			p.s.AdvanceTo(p.s.Now().Add(d))
		}
	case 8: // crash / restart
		if p.s.FaultsOn && !p.s.Cfg.NoFaults && p.s.Knobs.FaultKinds["crash"] {
			p.note("crash")
			p.s.Crash()
		}
	}
}

// ---------- C14 oracles

func condTrue(nc *v1.NodeClaim, t string) bool { return nc.StatusConditions().Get(t).IsTrue() }

func (p *lifeProfile) onProviderCreate(t *Task, nc *v1.NodeClaim, inst *Instance, err error, fault FaultKind) {
	s := p.s
	if cloudprovider.IsInsufficientCapacityError(err) && t != nil {
		t.Notes["ice"] = nc.Name
		s.Probe("ice-answer")
	}
	if cloudprovider.IsNodeClassNotReadyError(err) && t != nil {
		t.Notes["nodeclassnotready"] = nc.Name
	}
	if inst == nil {
		return
	}
	// finalizer first
	srv := s.store.Get(gvkNodeClaim, types.NamespacedName{Name: nc.Name})
	if srv == nil || srv.GetUID() != nc.UID {
		s.Violate("C14", "create-without-finalizer", "provider Create for NodeClaim %s (uid %s) while no such object exists in the API", nc.Name, nc.UID)
	} else if !hasFinalizer(srv, v1.TerminationFinalizer) {
		s.Violate("C14", "create-without-finalizer", "provider Create for NodeClaim %s before the termination finalizer is on the object (server version %s)", nc.Name, srv.GetResourceVersion())
	}
	if fault == FErrAfter || fault == FCrashAfter {
		s.Probe("create-response-lost")
		return
	}
	key := fmt.Sprintf("%s/%d", nc.UID, s.inc)
	p.creates[key]++
	if p.creates[key] > 1 {
		s.Violate("C14", "duplicate-create", "NodeClaim %s (uid %s): %d acknowledged successful provider Creates within incarnation %d", nc.Name, nc.UID, p.creates[key], s.inc)
	}
	for k := range p.creates {
		if strings.HasPrefix(k, string(nc.UID)+"/") && k != key {
			s.Probe("create-again-after-restart")
		}
	}
}

func hasFinalizer(o client.Object, f string) bool {
	for _, x := range o.GetFinalizers() {
		if x == f {
			return true
		}
	}
	return false
}

// lastNodeRead returns the last Node version with the provider id that the task was given.
func lastNodeRead(t *Task, providerID string) *corev1.Node {
	for i := len(t.Reads) - 1; i >= 0; i-- {
		r := t.Reads[i]
		if r.Kind != "Node" {
			continue
		}
		for _, o := range r.Objs {
			if n, ok := o.(*corev1.Node); ok && n.Spec.ProviderID == providerID {
				return n
			}
		}
		// the most recent node read did not contain it
		if r.Err == nil {
			return nil
		}
	}
	return nil
}

func nodeIsReady(n *corev1.Node) bool {
	for _, c := range n.Status.Conditions {
		if c.Type == corev1.NodeReady {
			return c.Status == corev1.ConditionTrue
		}
	}
	return false
}

// onWrite observes every committed change of a NodeClaim.
func (p *lifeProfile) onWrite(ev WatchEvent, old client.Object, by *Task) {
	s := p.s
	if ev.GVK != gvkNodeClaim {
		return
	}
	if by != nil && old != nil && hasFinalizer(old, v1.TerminationFinalizer) && (ev.Type == EvDeleted || !hasFinalizer(ev.Obj, v1.TerminationFinalizer)) {
		checkNodeClaimFinalized(s, p.e.CP, old.(*v1.NodeClaim), by)
	}
	if ev.Type == EvDeleted {
		return
	}
	nc := ev.Obj.(*v1.NodeClaim)
	h := p.condHist[nc.UID]
	if h == nil {
		h = map[string]bool{}
		p.condHist[nc.UID] = h
	}
	var oldNC *v1.NodeClaim
	if old != nil {
		oldNC = old.(*v1.NodeClaim)
	}
	for _, ct := range []string{v1.ConditionTypeLaunched, v1.ConditionTypeRegistered, v1.ConditionTypeInitialized} {
		now := condTrue(nc, ct)
		was := oldNC != nil && condTrue(oldNC, ct)
		if was && !now && by != nil {
			// did the writer know the condition was True? (the version it reconciled)
			knew := false
			for _, r := range by.Reads {
				if r.Kind == "NodeClaim" && len(r.Objs) > 0 {
					if rn, ok := r.Objs[0].(*v1.NodeClaim); ok && rn.UID == nc.UID && condTrue(rn, ct) {
						knew = true
					}
				}
			}
			if knew {
				s.Violate("C14", "condition-regressed", "NodeClaim %s: %s went from True to %v, written by %s which had read it as True", nc.Name, ct, nc.StatusConditions().Get(ct), by.Name())
			} else {
				s.Violate("C14", "condition-regressed-by-stale-read", "NodeClaim %s: %s went from True to %v: %s reconciled a cached version older than the one that made it True and its un-versioned status merge patch replaced the whole condition list", nc.Name, ct, nc.StatusConditions().Get(ct), by.Name())
			}
		}
		if now {
			h[ct] = true
		}
		if !now || was || by == nil {
			continue
		}
		// a Karpenter task made this condition True
		switch ct {
		case v1.ConditionTypeLaunched:
			s.Probe("launched")
			inst := p.e.CP.Instances[nc.Status.ProviderID]
			if inst == nil || inst.UID != nc.UID {
				s.Violate("C14", "launched-without-instance", "NodeClaim %s marked Launched with provider id %q but the provider created no such instance for it", nc.Name, nc.Status.ProviderID)
			}
		case v1.ConditionTypeRegistered:
			s.Probe("registered")
			if !condTrue(nc, v1.ConditionTypeLaunched) {
				s.Violate("C14", "order", "NodeClaim %s: Registered=True while Launched is %v", nc.Name, nc.StatusConditions().Get(v1.ConditionTypeLaunched))
			}
			n := lastNodeRead(by, nc.Status.ProviderID)
			if n == nil {
				s.Violate("C14", "registered-unjustified", "NodeClaim %s: Registered=True but task %s never read a Node with provider id %s", nc.Name, by.Name(), nc.Status.ProviderID)
				break
			}
			// the node this task saw, after this task's own node patch (if any), must be synced
			synced := n
			for _, w := range by.Writes {
				if w.Kind == "Node" && w.Key == "/"+n.Name && w.Obj != nil {
					if wn, ok := w.Obj.(*corev1.Node); ok {
						synced = wn
					}
				}
			}
			if synced.Labels[v1.NodeRegisteredLabelKey] != "true" {
				s.Violate("C14", "registered-unjustified", "NodeClaim %s: Registered=True but node %s (as read/written by the task) lacks the registered label", nc.Name, synced.Name)
			}
			for _, t := range synced.Spec.Taints {
				if t.MatchTaint(&v1.UnregisteredNoExecuteTaint) {
					s.Violate("C14", "registered-unjustified", "NodeClaim %s: Registered=True but node %s still carries the unregistered taint", nc.Name, synced.Name)
				}
			}
		case v1.ConditionTypeInitialized:
			s.Probe("initialized")
			if !condTrue(nc, v1.ConditionTypeRegistered) {
				s.Violate("C14", "order", "NodeClaim %s: Initialized=True while Registered is %v", nc.Name, nc.StatusConditions().Get(v1.ConditionTypeRegistered))
			}
			n := lastNodeRead(by, nc.Status.ProviderID)
			if n == nil {
				s.Violate("C14", "initialized-unjustified", "NodeClaim %s: Initialized=True but task %s never read a Node with provider id %s", nc.Name, by.Name(), nc.Status.ProviderID)
				break
			}
			if !nodeIsReady(n) {
				s.Violate("C14", "initialized-unjustified", "NodeClaim %s: Initialized=True but the node version read (%s rv %s) is not Ready", nc.Name, n.Name, n.ResourceVersion)
			}
			for i := range n.Spec.Taints {
				t := n.Spec.Taints[i]
				if scheduling.IsKnownEphemeralTaint(&t) {
					s.Violate("C14", "initialized-unjustified", "NodeClaim %s: Initialized=True but node %s carries ephemeral taint %s", nc.Name, n.Name, t.Key)
				}
				for _, st := range nc.Spec.StartupTaints {
					if st.MatchTaint(&t) {
						s.Violate("C14", "initialized-unjustified", "NodeClaim %s: Initialized=True but node %s carries startup taint %s", nc.Name, n.Name, t.Key)
					}
				}
			}
			for r, q := range nc.Spec.Resources.Requests {
				if q.IsZero() || !isExtended(r) {
					continue
				}
				if a := n.Status.Allocatable[r]; a.IsZero() {
					s.Violate("C14", "initialized-unjustified", "NodeClaim %s: Initialized=True but requested extended resource %s is not reported in node %s allocatable", nc.Name, r, n.Name)
				}
			}
		}
	}
}

func (p *lifeProfile) onTaskDone(t *Task) {
	s := p.s
	checkReaperTask(s, t)
	if t.Ctrl.Name != "nodeclaim.lifecycle" {
		return
	}
	if t.Panic != nil {
		s.Violate("C14", "controller-crash", "nodeclaim.lifecycle panicked: %v\n%s", t.Panic, firstLines(t.PanicSt, 12))
	}
	if name, ok := t.Notes["ice"].(string); ok {
		// capacity error: the same reconcile must issue a Delete of the NodeClaim
		deleted := false
		for _, w := range t.Writes {
			if w.Kind == "NodeClaim" && strings.HasPrefix(w.Verb, "delete") && w.Key == "/"+name {
				deleted = true
			}
		}
		if !deleted {
			s.Violate("C14", "ice-not-deleted", "NodeClaim %s: provider answered InsufficientCapacity but the reconcile issued no Delete of the NodeClaim", name)
		}
	}
	// C16 liveness clause: a Delete issued by lifecycle outside the capacity-error path must be a timeout
	for _, w := range t.Writes {
		if w.Kind != "NodeClaim" || !strings.HasPrefix(w.Verb, "delete") || w.Fault == FErrBefore {
			continue
		}
		if _, ice := t.Notes["ice"]; ice {
			continue
		}
		if _, ncnr := t.Notes["nodeclassnotready"]; ncnr {
			continue
		}
		p.checkLivenessDelete(t, w)
	}
}

func firstLines(s string, n int) string {
	l := strings.Split(s, "\n")
	if len(l) > n {
		l = l[:n]
	}
	return strings.Join(l, "\n")
}

func (p *lifeProfile) checkLivenessDelete(t *Task, w WriteRec) {
	s := p.s
	// the NodeClaim version the task reconciled (first NodeClaim read)
	var nc *v1.NodeClaim
	for _, r := range t.Reads {
		if r.Kind == "NodeClaim" && len(r.Objs) > 0 {
			nc = r.Objs[0].(*v1.NodeClaim)
			break
		}
	}
	if nc == nil {
		return
	}
	s.Probe("liveness-delete")
	if condTrue(nc, v1.ConditionTypeRegistered) {
		s.Violate("C16", "liveness-registered", "lifecycle deleted NodeClaim %s although the version it reconciled is Registered", nc.Name)
		return
	}
	// the timeout is measured on the condition transition times as they are in memory during the reconcile;
	// conditions missing on the read version are initialised at the task's start
	launchedAt, registeredAt := t.Start, t.Start
	if c := nc.StatusConditions().Get(v1.ConditionTypeLaunched); c != nil {
		launchedAt = c.LastTransitionTime.Time
	}
	if c := nc.StatusConditions().Get(v1.ConditionTypeRegistered); c != nil {
		registeredAt = c.LastTransitionTime.Time
	}
	now := w.At
	if condTrue(nc, v1.ConditionTypeLaunched) || p.condHist[nc.UID][v1.ConditionTypeLaunched] {
		if now.Sub(registeredAt) < 15*time.Minute {
			s.Violate("C16", "liveness-early", "lifecycle deleted launched NodeClaim %s only %v after its Registered condition last changed (registration timeout is 15m)", nc.Name, now.Sub(registeredAt))
		}
	} else if now.Sub(launchedAt) < 5*time.Minute && now.Sub(registeredAt) < 15*time.Minute {
		s.Violate("C16", "liveness-early", "lifecycle deleted unlaunched NodeClaim %s %v after its Launched condition last changed (launch timeout is 5m)", nc.Name, now.Sub(launchedAt))
	}
}

// checkReaperTask: C16 clauses for expiration and garbage collection, judged on what the task read.
func checkReaperTask(s *Sim, t *Task) {
	switch t.Ctrl.Name {
	case "nodeclaim.expiration":
		if t.Panic != nil {
			s.Violate("C16", "controller-crash", "nodeclaim.expiration panicked: %v", t.Panic)
		}
		for _, w := range t.Writes {
			if w.Kind != "NodeClaim" || !strings.HasPrefix(w.Verb, "delete") {
				continue
			}
			var nc *v1.NodeClaim
			for _, r := range t.Reads {
				if r.Kind == "NodeClaim" && len(r.Objs) > 0 {
					nc = r.Objs[0].(*v1.NodeClaim)
					break
				}
			}
			if nc == nil {
				continue
			}
			s.Probe("expiration-delete")
			if nc.Spec.ExpireAfter.Duration == nil {
				s.Violate("C16", "expired-although-disabled", "expiration deleted NodeClaim %s whose expireAfter is Never", nc.Name)
			} else if due := nc.CreationTimestamp.Add(*nc.Spec.ExpireAfter.Duration); w.At.Before(due) {
				s.Violate("C16", "expired-early", "expiration deleted NodeClaim %s at %s, %v before creation+expireAfter (%s)", nc.Name, w.At.Format(time.RFC3339), due.Sub(w.At), due.Format(time.RFC3339))
			}
		}
	case "nodeclaim.garbagecollection":
		if t.Panic != nil {
			s.Violate("C16", "controller-crash", "nodeclaim.garbagecollection panicked: %v", t.Panic)
		}
		var listed map[string]bool
		var ncs map[string]*v1.NodeClaim
		for _, r := range t.Reads {
			if r.Verb == "cp.list" && r.Err == nil {
				listed = map[string]bool{}
				for _, o := range r.Objs {
					listed[o.(*Instance).ID] = true
				}
			}
			if r.Verb == "list" && r.Kind == "NodeClaim" && r.Err == nil {
				ncs = map[string]*v1.NodeClaim{}
				for _, o := range r.Objs {
					ncs[o.(*v1.NodeClaim).Name] = o.(*v1.NodeClaim)
				}
			}
		}
		for _, w := range t.Writes {
			if w.Kind != "NodeClaim" || !strings.HasPrefix(w.Verb, "delete") {
				continue
			}
			name := strings.TrimPrefix(w.Key, "/")
			nc := ncs[name]
			s.Probe("gc-delete")
			if nc == nil || listed == nil {
				s.Violate("C16", "gc-unestablished", "garbage collection deleted NodeClaim %s without a successful NodeClaim list and provider list", name)
				continue
			}
			if !condTrue(nc, v1.ConditionTypeRegistered) {
				s.Violate("C16", "gc-unregistered", "garbage collection deleted NodeClaim %s which is not Registered", name)
			}
			if listed[nc.Status.ProviderID] {
				s.Violate("C16", "gc-instance-listed", "garbage collection deleted NodeClaim %s although the provider list it received contains instance %s", name, nc.Status.ProviderID)
			}
			established, ready := false, false
			for _, r := range t.Reads {
				if r.Verb == "list" && r.Kind == "Node" && strings.Contains(r.Key, "spec.providerID="+nc.Status.ProviderID) && r.Step <= w.Step {
					if r.Err != nil {
						continue
					}
					established = true
					for _, o := range r.Objs {
						if nodeIsReady(o.(*corev1.Node)) {
							ready = true
						}
					}
				}
			}
			if !established {
				s.Violate("C16", "gc-node-unknown", "garbage collection deleted NodeClaim %s although its node lookup failed, so absence or unreadiness of the Node was not established", name)
			} else if ready {
				s.Violate("C16", "gc-ready-node", "garbage collection deleted NodeClaim %s although the Node it read is Ready", name)
			}
		}
	}
}

// ---------- C20 oracle

func modelStatus(w []bool) nodepoolhealth.Status {
	if len(w) == 0 {
		return nodepoolhealth.StatusUnknown
	}
	f := 0
	for _, b := range w {
		if !b {
			f++
		}
	}
	if f >= 2 {
		return nodepoolhealth.StatusUnhealthy
	}
	return nodepoolhealth.StatusHealthy
}

// checkHealthReset: C20's reset clause, driven by what the registration-health reconcile read rather than by the
// tracker calls under test: when the NodePool or NodeClass generation it read differs from the one the condition /
// status had recorded, the window is empty afterwards (tracker Unknown, no earlier outcome counts any more).
// observeHealthReset runs before every step: a registration-health reconcile parked at its status patch has just
// decided about the reset, and no other task has run since (judging at the end of the task would see outcomes that
// other reconciles recorded while the patch was in flight).
func (p *lifeProfile) observeHealthReset() {
	for _, c := range p.s.sortedParked() {
		if c.Task.Ctrl.Name != "nodepool.registrationhealth" || c.Phase != 0 || c.Verb != "status-patch" || c.Task.Notes["resetChecked"] != nil {
			continue
		}
		c.Task.Notes["resetChecked"] = true
		p.checkHealthReset(c.Task)
	}
}

func (p *lifeProfile) checkHealthReset(t *Task) {
	s := p.s
	if t.Inc != s.inc {
		return
	}
	var np *v1.NodePool
	var ncl *v1alpha1.TestNodeClass
	for _, r := range t.Reads {
		if r.Err != nil || len(r.Objs) == 0 {
			continue
		}
		switch o := r.Objs[0].(type) {
		case *v1.NodePool:
			np = o
		case *v1alpha1.TestNodeClass:
			ncl = o
		}
	}
	if np == nil || ncl == nil {
		return
	}
	c := np.StatusConditions().Get(v1.ConditionTypeNodeRegistrationHealthy)
	if c != nil && np.Status.NodeClassObservedGeneration == ncl.GetGeneration() && np.Generation == c.ObservedGeneration {
		return
	}
	s.Probe("health-reset-expected")
	st, _ := p.e.Parts["npState"].(*nodepoolhealth.State)
	if st == nil {
		return
	}
	if got := st.Status(np.UID); got != nodepoolhealth.StatusUnknown {
		s.Violate("C20", "reset-missed", "pool %s: the registration-health reconcile read NodePool generation %d (condition observed %v) and NodeClass generation %d (status observed %d), so the launch window had to be reset, but the tracker still reports %s from earlier outcomes %s", np.UID, np.Generation, func() interface{} {
			if c == nil {
				return "none"
			}
			return c.ObservedGeneration
		}(), ncl.GetGeneration(), np.Status.NodeClassObservedGeneration, statusName(got), winString(p.win[np.UID]))
		return
	}
	if len(p.win[np.UID]) > 0 {
		// the hook did not see a reset call although one was due and the tracker reports Unknown: a window of one
		// failure also reports Unknown, so look one outcome ahead with the what-if
		if st.DryRun(np.UID, false).Status() != nodepoolhealth.StatusHealthy && st.DryRun(np.UID, false).Status() != nodepoolhealth.StatusUnknown {
			s.Violate("C20", "reset-missed", "pool %s: a reset was due (NodePool / NodeClass generation changed) but earlier outcomes %s still count: one more failure would already make the pool Unhealthy", np.UID, winString(p.win[np.UID]))
			return
		}
		p.win[np.UID] = nil
	}
}

func pushWin(w []bool, b bool) []bool {
	w = append(append([]bool(nil), w...), b)
	if len(w) > 4 {
		w = w[len(w)-4:]
	}
	return w
}

func statusName(s nodepoolhealth.Status) string {
	return [...]string{"Unknown", "Healthy", "Unhealthy"}[s]
}

func winString(w []bool) string {
	out := ""
	for _, b := range w {
		if b {
			out += "S"
		} else {
			out += "F"
		}
	}
	return "[" + out + "]"
}

// onHealthEvent is hook H2: called (in the task's goroutine) just BEFORE the tracker is changed.
func (p *lifeProfile) onHealthEvent(np *nodepoolhealth.State, uid types.UID, op string, success bool) {
	s := p.s
	t := s.taskOfGoroutine()
	before := p.win[uid]
	switch op {
	case "set:unknown":
		p.win[uid] = nil
		if p.resetStep == nil {
			p.resetStep = map[types.UID]int{}
		}
		p.resetStep[uid] = s.step
		s.Probe("health-reset")
		return
	case "set:healthy":
		p.win[uid] = []bool{true}
		s.Probe("health-rehydrate")
		return
	case "set:unhealthy":
		p.win[uid] = []bool{false, false}
		s.Probe("health-rehydrate")
		return
	}
	// 1. the real tracker agrees with the window model before the outcome is recorded
	if got, want := np.Status(uid), modelStatus(before); got != want {
		s.Violate("C20", "window-status", "pool %s: tracker status %s but the last outcomes %s give %s", uid, statusName(got), winString(before), statusName(want))
	}
	after := pushWin(before, success)
	// 2. the what-if evaluation agrees with the state reached after the outcome is recorded
	if got, want := np.DryRun(uid, success).Status(), modelStatus(after); got != want {
		s.Violate("C20", "dry-run-disagrees", "pool %s: what-if of outcome %v on window %s says %s, but recording it gives %s", uid, success, winString(before), statusName(got), statusName(want))
	}
	if len(before) == 4 {
		s.Probe("window-wrapped")
	}
	p.win[uid] = after
	s.Probe("health-outcome")
	// 3. the condition written by this reconcile matches the window after the outcome
	if t == nil {
		return
	}
	var read *v1.NodePool
	for i := len(t.Reads) - 1; i >= 0 && read == nil; i-- {
		if t.Reads[i].Kind == "NodePool" && len(t.Reads[i].Objs) > 0 {
			read = t.Reads[i].Objs[0].(*v1.NodePool)
		}
	}
	var patched *v1.NodePool
	patchFaulted := false
	for _, w := range t.Writes {
		if w.Kind == "NodePool" && w.Verb == "status-patch" {
			if w.Err == nil && w.Obj != nil {
				patched = w.Obj.(*v1.NodePool)
			} else {
				patchFaulted = true
			}
		}
	}
	if read == nil || read.UID != uid || patchFaulted {
		return
	}
	// the reconcile evaluates the what-if, patches the condition and only then records the outcome; a reset by the
	// registration-health controller that lands in between is a race of its own, named separately
	raced := ""
	if rs, ok := p.resetStep[uid]; ok && rs >= t.StartSt {
		raced = "/reset-between-what-if-and-record"
	}
	want := modelStatus(after)
	condOf := func(np *v1.NodePool) string {
		c := np.StatusConditions().Get(v1.ConditionTypeNodeRegistrationHealthy)
		if c == nil {
			return "Unknown"
		}
		return string(c.Status)
	}
	final := condOf(read)
	if patched != nil {
		final = condOf(patched)
	}
	if success {
		if want == nodepoolhealth.StatusHealthy && final != "True" {
			s.Violate("C20", "condition-after-success"+raced, "pool %s: success recorded, window %s is healthy, but NodeRegistrationHealthy left at %s", read.Name, winString(after), final)
		}
		if want != nodepoolhealth.StatusHealthy && patched != nil && condOf(patched) == "True" && condOf(read) != "True" {
			s.Violate("C20", "condition-after-success"+raced, "pool %s: success recorded, window %s is still unhealthy, but NodeRegistrationHealthy was set True", read.Name, winString(after))
		}
	} else {
		if want == nodepoolhealth.StatusUnhealthy && final != "False" {
			s.Violate("C20", "condition-after-failure"+raced, "pool %s: failure recorded, window %s is unhealthy, but NodeRegistrationHealthy left at %s", read.Name, winString(after), final)
		}
		if want != nodepoolhealth.StatusUnhealthy && patched != nil && condOf(patched) == "False" && condOf(read) != "False" {
			s.Violate("C20", "condition-after-failure"+raced, "pool %s: failure recorded, window %s is not unhealthy, but NodeRegistrationHealthy was set False", read.Name, winString(after))
		}
	}
}

func (p *lifeProfile) finalChecks() {
	s := p.s
	np, _ := p.e.Parts["npState"].(*nodepoolhealth.State)
	if np == nil {
		return
	}
	uids := make([]string, 0, len(p.win))
	for uid := range p.win {
		uids = append(uids, string(uid))
	}
	sort.Strings(uids)
	for _, u := range uids {
		uid := types.UID(u)
		w := p.win[uid]
		if got, want := np.Status(uid), modelStatus(w); got != want {
			s.Violate("C20", "window-status", "pool %s: tracker status %s but the last outcomes %s give %s", uid, statusName(got), winString(w), statusName(want))
		}
		for _, b := range []bool{true, false} {
			if got, want := np.DryRun(uid, b).Status(), modelStatus(pushWin(w, b)); got != want {
				s.Violate("C20", "dry-run-disagrees", "pool %s: what-if of outcome %v on window %s says %s, but recording it gives %s", uid, b, winString(w), statusName(got), statusName(want))
			}
		}
	}
}

// ---------- object builders shared by profiles

func (e *Env) MakeNodePool(name string, ch *Chooser) *v1.NodePool {
	np := &v1.NodePool{ObjectMeta: metav1.ObjectMeta{Name: name}}
	np.Spec.Template.Spec.NodeClassRef = &v1.NodeClassReference{Group: "karpenter.test.sh", Kind: "TestNodeClass", Name: "default"}
	np.Spec.Template.Spec.ExpireAfter = v1.MustParseNillableDuration("Never")
	np.Spec.Disruption.ConsolidateAfter = v1.MustParseNillableDuration("Never")
	np.Spec.Disruption.Budgets = []v1.Budget{{Nodes: "10%"}}
	return np
}

func (e *Env) MakeNodeClaim(name string, np *v1.NodePool, ch *Chooser) *v1.NodeClaim {
	nc := &v1.NodeClaim{ObjectMeta: metav1.ObjectMeta{Name: name, Labels: map[string]string{v1.NodePoolLabelKey: np.Name,
		v1.NodeClassLabelKey(np.Spec.Template.Spec.NodeClassRef.GroupKind()): np.Spec.Template.Spec.NodeClassRef.Name},
		OwnerReferences: []metav1.OwnerReference{{APIVersion: "karpenter.sh/v1", Kind: "NodePool", Name: np.Name, UID: np.UID, BlockOwnerDeletion: ptr.To(true)}}}}
	for k, v := range np.Spec.Template.Labels {
		nc.Labels[k] = v
	}
	nc.Spec.NodeClassRef = np.Spec.Template.Spec.NodeClassRef
	nc.Spec.ExpireAfter = np.Spec.Template.Spec.ExpireAfter
	cat := e.CP.Catalog
	// a subset of instance types, as the scheduler would leave after filtering
	var names []string
	for _, it := range cat {
		if ch.Pick("nc.it", 3) != 0 {
			names = append(names, it.Name)
		}
	}
	if len(names) == 0 {
		names = []string{cat[ch.Pick("nc.it1", len(cat))].Name}
	}
	nc.Spec.Requirements = []v1.NodeSelectorRequirementWithMinValues{
		{Key: corev1.LabelInstanceTypeStable, Operator: corev1.NodeSelectorOpIn, Values: names},
		{Key: v1.CapacityTypeLabelKey, Operator: corev1.NodeSelectorOpIn, Values: [][]string{{"spot", "on-demand"}, {"on-demand"}, {"spot"}}[ch.Pick("nc.ct", 3)]},
	}
	nc.Spec.Resources.Requests = corev1.ResourceList{corev1.ResourceCPU: resource.MustParse([]string{"100m", "500m", "1"}[ch.Pick("nc.cpu", 3)]), corev1.ResourcePods: resource.MustParse("1")}
	if ch.Pick("nc.gpu", 5) == 0 {
		nc.Spec.Resources.Requests[GPUResource] = resource.MustParse("1")
	}
	if ch.Pick("nc.startup", 3) == 0 {
		nc.Spec.StartupTaints = []corev1.Taint{{Key: "example.com/startup", Effect: corev1.TaintEffectNoSchedule}}
	}
	if ch.Pick("nc.taint", 4) == 0 {
		nc.Spec.Taints = []corev1.Taint{{Key: "example.com/dedicated", Value: "x", Effect: corev1.TaintEffectNoSchedule}}
	}
	return nc
}
