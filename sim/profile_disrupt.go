package sim

// Profile `disrupt` (C05, C06, C07, C08, C18): the `prov` stack plus the REAL disruption controller
// (all methods, validators), orchestration queue, node termination and eviction queue. Workloads
// scale down, pools drift, blockers (PDBs, do-not-disrupt, nominations, consolidateAfter) toggle,
// budgets open and close on cron windows, replacements fail to initialise, candidates vanish, the
// process restarts. Commands are observed through Queue.GetCommands() after every step.

import (
	"unsafe"
	"reflect"
	"encoding/json"
	"context"
	"fmt"
	"hash/fnv"
	"sort"
	"strings"
	"time"

	corev1 "k8s.io/api/core/v1"
	policyv1 "k8s.io/api/policy/v1"
	metav1 "k8s.io/apimachinery/pkg/apis/meta/v1"
	"k8s.io/apimachinery/pkg/labels"
	"k8s.io/apimachinery/pkg/types"
	"k8s.io/utils/ptr"
	"sigs.k8s.io/controller-runtime/pkg/client"

	v1 "sigs.k8s.io/karpenter/pkg/apis/v1"
	"sigs.k8s.io/karpenter/pkg/controllers/disruption"
	"sigs.k8s.io/karpenter/pkg/controllers/provisioning"
	"sigs.k8s.io/karpenter/pkg/events"
)

func init() { Profiles["disrupt"] = func() Profile { return &provProfile{disrupt: true} } }

type cmdInfo struct {
	id        string
	cmd       *disruption.Command
	reason    v1.DisruptionReason
	firstStep int
	firstAt   time.Time
	created   time.Time
	cands     []candInfo
	repl      []string
	decider   *Task
	deletes   int
	faulted   bool
	gone      bool
}

type candInfo struct {
	nodeClaim string
	node      string
	pid       string
	pool      string
	price     float64
}

type disruptState struct {
	cmdList     []*cmdInfo // first-seen order (command UUIDs are random and never enter the log)
	cmds        map[string]*cmdInfo
	byCand      map[string]*cmdInfo // nodeclaim name -> live command
	initEver    map[string]bool     // nodeclaim name -> has been Initialized=True in some server version
	lastCache   map[string]int      // "Kind/ns/name" -> step of the last cache delivery for the object
	nominatedAt map[int]map[string]bool
	nomEvents   map[string]int // node name -> step of last Nominated event
	nomTimes    map[string][]time.Time // node name -> instants of the Nominated events seen for it
	evWasIn     map[types.UID]bool
	rsSpec      map[string]*corev1.Pod
	rsDesired   map[string]int
	whatIfs     int
}

func (p *provProfile) buildDisrupt() {
	pr := p.e.Parts["provisioner"].(*provisioning.Provisioner)
	p.e.AddTermination()
	p.e.AddDisruption(pr)
	p.d.evWasIn = map[types.UID]bool{}
	delete(p.e.Parts, "seenCmds")
}

func (p *provProfile) setupDisrupt() {
	s := p.s
	ch := p.ch
	p.d = &disruptState{cmds: map[string]*cmdInfo{}, byCand: map[string]*cmdInfo{}, initEver: map[string]bool{}, lastCache: map[string]int{},
		nominatedAt: map[int]map[string]bool{}, nomEvents: map[string]int{}, nomTimes: map[string][]time.Time{}, rsSpec: map[string]*corev1.Pod{}, rsDesired: map[string]int{}}
	p.e.Opts.FeatureGates.SpotToSpotConsolidation = ch.Pick("dis.spot2spot", 2) == 0
	s.Mgr.OnTaskStart(func(t *Task) {
		if t.Ctrl.Name == "disruption" && p.e.Cluster != nil {
			nom := map[string]bool{}
			for n := range p.e.Cluster.Nodes() {
				if n.Nominated(s.Clock) {
					nom[n.ProviderID()] = true
				}
			}
			p.d.nominatedAt[t.ID] = nom
		}
	})
}

// genDisruptionSettings decorates a generated NodePool with consolidation settings and budgets.
func (p *provProfile) genDisruptionSettings(np *v1.NodePool) {
	ch := p.ch
	np.Spec.Disruption.ConsolidateAfter = v1.MustParseNillableDuration([]string{"0s", "30s", "2m", "Never"}[ch.Pick("dis.after", 4)])
	np.Spec.Disruption.ConsolidationPolicy = []v1.ConsolidationPolicy{v1.ConsolidationPolicyWhenEmptyOrUnderutilized, v1.ConsolidationPolicyWhenEmpty}[ch.Pick("dis.policy", 3)%2]
	np.Spec.Disruption.Budgets = p.genBudgets()
	if ch.Pick("dis.tgp", 3) == 0 {
		np.Spec.Template.Spec.TerminationGracePeriod = &metav1.Duration{Duration: []time.Duration{time.Minute, 10 * time.Minute}[ch.Pick("dis.tgpv", 2)]}
	}
}

func (p *provProfile) genBudgets() []v1.Budget {
	ch := p.ch
	var out []v1.Budget
	n := 1 + ch.Pick("bud.n", 3)
	for i := 0; i < n; i++ {
		b := v1.Budget{Nodes: []string{"1", "2", "0", "10%", "34%", "50%", "100%", "5"}[ch.Pick("bud.nodes", 8)]}
		switch ch.Pick("bud.reasons", 4) {
		case 0:
			b.Reasons = []v1.DisruptionReason{v1.DisruptionReasonEmpty}
		case 1:
			b.Reasons = []v1.DisruptionReason{v1.DisruptionReasonUnderutilized, v1.DisruptionReasonDrifted}
		}
		switch ch.Pick("bud.sched", 5) {
		case 0:
			b.Schedule = ptr.To([]string{"*/10 * * * *", "0 * * * *", "15,45 * * * *", "@hourly", "*/7 * * * *"}[ch.Pick("bud.cron", 5)])
			b.Duration = &metav1.Duration{Duration: []time.Duration{3 * time.Minute, 5 * time.Minute, 10 * time.Minute, 30 * time.Minute}[ch.Pick("bud.dur", 4)]}
		case 1:
			if ch.Pick("bud.malformed", 4) == 0 {
				b.Schedule = ptr.To("61 * * * *")
				b.Duration = &metav1.Duration{Duration: 10 * time.Minute}
			}
		}
		out = append(out, b)
	}
	return out
}

// ---------- workload controller: ReplicaSets keep their replica count

func (p *provProfile) rsOnWrite(ev WatchEvent, old client.Object, by *Task) {
	if p.d == nil || ev.GVK != gvkPod || ev.Type != EvDeleted {
		return
	}
	pod := ev.Obj.(*corev1.Pod)
	for _, o := range pod.OwnerReferences {
		if o.Kind == "ReplicaSet" {
			p.rsQueue = append(p.rsQueue, o.Name)
		}
	}
}

func (p *provProfile) rsPump() {
	if p.d == nil || len(p.rsQueue) == 0 {
		return
	}
	q := p.rsQueue
	p.rsQueue = nil
	st := p.s.store
	for _, rs := range q {
		tmpl := p.d.rsSpec[rs]
		if tmpl == nil {
			continue
		}
		live := 0
		for _, o := range st.List(gvkPod) {
			if o.GetDeletionTimestamp() != nil {
				continue
			}
			for _, ow := range o.GetOwnerReferences() {
				if ow.Kind == "ReplicaSet" && ow.Name == rs {
					live++
				}
			}
		}
		for ; live < p.d.rsDesired[rs]; live++ {
			p.nPod++
			np := tmpl.DeepCopy()
			np.Name = fmt.Sprintf("pod-%d", p.nPod)
			np.Spec.NodeName = ""
			np.Status = corev1.PodStatus{Phase: corev1.PodPending}
			must(st.Create(np, nil))
			p.s.Stat("env.pod.recreated")
		}
	}
}

// ---------- extra operations of the disrupt profile

func (p *provProfile) disruptOp() bool {
	ch := p.ch
	st := p.s.store
	s := p.s
	switch ch.Pick("dis.op", 12) {
	case 0, 1: // scale a deployment down
		var names []string
		for rs, n := range p.d.rsDesired {
			if n > 0 {
				names = append(names, rs)
			}
		}
		sort.Strings(names)
		if len(names) == 0 {
			return true
		}
		rs := names[ch.Pick("dis.rs", len(names))]
		k := 1 + ch.Pick("dis.down", p.d.rsDesired[rs])
		p.d.rsDesired[rs] -= k
		for _, o := range st.List(gvkPod) {
			if k == 0 {
				break
			}
			for _, ow := range o.GetOwnerReferences() {
				if ow.Kind == "ReplicaSet" && ow.Name == rs && o.GetDeletionTimestamp() == nil && k > 0 {
					_ = st.Delete(o, DeleteOpts{Grace: ptr.To(int64(0))}, nil)
					k--
				}
			}
		}
		p.note("scale down %s to %d", rs, p.d.rsDesired[rs])
		if ch.Pick("dis.tighten", 2) == 1 {
			// an operator notices the churn and tightens the budgets a little later (to a small non-zero count)
			pool := p.pools[ch.Pick("prov.pool", len(p.pools))]
			d := time.Duration(10+ch.Pick("dis.tightenafter", 80)) * time.Second
			s.AddTimer(actorUser, d, "budgets tightened", false, func() {
				st.Mutate(gvkNodePool, types.NamespacedName{Name: pool}, func(o client.Object) { o.(*v1.NodePool).Spec.Disruption.Budgets = []v1.Budget{{Nodes: "1"}} })
				p.note("budgets of %s = 1 (tightened)", pool)
			})
		}
	case 2: // PDB appears or its budget changes
		l := st.List(gvkPDB)
		if len(l) == 0 || ch.Pick("dis.newpdb", 3) == 0 {
			app := fmt.Sprintf("d%d", 1+ch.Pick("dis.pdbapp", max(p.nDep, 1)))
			pdb := &policyv1.PodDisruptionBudget{ObjectMeta: metav1.ObjectMeta{Name: "pdb-" + app, Namespace: "default"},
				Spec: policyv1.PodDisruptionBudgetSpec{Selector: &metav1.LabelSelector{MatchLabels: map[string]string{"app": app}}}}
			if o, err := st.Create(pdb, nil); err == nil {
				st.Mutate(gvkPDB, keyOf(o), func(o client.Object) { o.(*policyv1.PodDisruptionBudget).Status.DisruptionsAllowed = int32(ch.Pick("dis.pdballowed", 2)) })
				p.note("create %s", pdb.Name)
			}
			return true
		}
		o := l[ch.Pick("dis.pick", len(l))]
		allowed := int32(ch.Pick("dis.pdballowed", 3))
		st.Mutate(gvkPDB, keyOf(o), func(o client.Object) { o.(*policyv1.PodDisruptionBudget).Status.DisruptionsAllowed = allowed })
		p.note("pdb %s disruptionsAllowed=%d", o.GetName(), allowed)
	case 3: // do-not-disrupt toggles on a pod
		l := st.List(gvkPod)
		if len(l) == 0 {
			return true
		}
		o := l[ch.Pick("dis.pick", len(l))]
		v := []string{"true", "3m", "20m"}[ch.Pick("dis.dndv", 3)]
		st.Mutate(gvkPod, keyOf(o), func(o client.Object) {
			q := o.(*corev1.Pod)
			if q.Annotations[v1.DoNotDisruptAnnotationKey] != "" {
				delete(q.Annotations, v1.DoNotDisruptAnnotationKey)
			} else {
				if q.Annotations == nil {
					q.Annotations = map[string]string{}
				}
				q.Annotations[v1.DoNotDisruptAnnotationKey] = v
			}
		})
		p.note("toggle do-not-disrupt=%s on pod %s", v, o.GetName())
	case 4: // do-not-disrupt toggles on a node
		l := st.List(gvkNode)
		if len(l) == 0 {
			return true
		}
		o := l[ch.Pick("dis.pick", len(l))]
		st.Mutate(gvkNode, keyOf(o), func(o client.Object) {
			n := o.(*corev1.Node)
			if n.Annotations[v1.DoNotDisruptAnnotationKey] != "" {
				delete(n.Annotations, v1.DoNotDisruptAnnotationKey)
			} else {
				if n.Annotations == nil {
					n.Annotations = map[string]string{}
				}
				n.Annotations[v1.DoNotDisruptAnnotationKey] = "true"
			}
		})
		p.note("toggle do-not-disrupt on node %s", o.GetName())
	case 5: // budgets edited
		name := p.pools[ch.Pick("prov.pool", len(p.pools))]
		b := p.genBudgets()
		st.Mutate(gvkNodePool, types.NamespacedName{Name: name}, func(o client.Object) { o.(*v1.NodePool).Spec.Disruption.Budgets = b })
		p.note("budgets of %s = %s", name, budgetsString(b))
	case 6: // clock jumps next to a budget window edge
		if s.FaultsOn && !s.Cfg.NoFaults {
			now := s.Now()
			next := now.Truncate(5 * time.Minute).Add(5 * time.Minute)
			// right at the edge, or some seconds before it so that a 15 s validation delay straddles the edge
			d := next.Sub(now) + time.Duration([]int{0, -2, -1, 1, 2, -8, -12}[ch.Pick("dis.edge", 7)])*time.Second
			if d > 0 {
				s.Stat("fault.clock.jump")
				p.note("clock jump +%v (window edge)", d)
				s.AdvanceTo(now.Add(d))
			}
		}
	case 7: // pod-deletion-cost: makes a node \"empty\" in the eviction-cost sense or not
		l := st.List(gvkPod)
		if len(l) == 0 {
			return true
		}
		o := l[ch.Pick("dis.pick", len(l))]
		st.Mutate(gvkPod, keyOf(o), func(o client.Object) {
			q := o.(*corev1.Pod)
			if q.Annotations == nil {
				q.Annotations = map[string]string{}
			}
			if q.Annotations[corev1.PodDeletionCost] == "" {
				q.Annotations[corev1.PodDeletionCost] = "-2147483648"
			} else {
				delete(q.Annotations, corev1.PodDeletionCost)
			}
		})
		p.note("toggle extreme negative pod-deletion-cost on %s", o.GetName())
	case 8: // what-if simulations (C18)
		p.whatIf()
	case 9: // a candidate NodeClaim of a live command is deleted by the user
		var names []string
		for n := range p.d.byCand {
			names = append(names, n)
		}
		sort.Strings(names)
		if len(names) > 0 {
			n := names[ch.Pick("dis.pick", len(names))]
			// the first candidate keys the command in the orchestration queue: prefer it when the command has more than one
			if ci := p.d.byCand[n]; ci != nil && len(ci.cands) > 1 && ch.Chance("dis.first", 0.6) {
				n = ci.cands[0].nodeClaim
				p.s.Probe("c08-first-candidate-of-multi-deleted")
			}
			if o := st.Get(gvkNodeClaim, types.NamespacedName{Name: n}); o != nil {
				_ = st.Delete(o, DeleteOpts{}, nil)
				p.note("user deletes candidate NodeClaim %s of a live command", n)
			}
		}
	case 10: // the NodePool template gains or loses a terminationGracePeriod (a drifting edit: NodeClaims launched before keep theirs)
		name := p.pools[ch.Pick("prov.pool", len(p.pools))]
		var set bool
		st.Mutate(gvkNodePool, types.NamespacedName{Name: name}, func(o client.Object) {
			np := o.(*v1.NodePool)
			if np.Spec.Template.Spec.TerminationGracePeriod == nil {
				np.Spec.Template.Spec.TerminationGracePeriod = &metav1.Duration{Duration: 10 * time.Minute}
				set = true
			} else {
				np.Spec.Template.Spec.TerminationGracePeriod = nil
			}
		})
		p.driftEdit[name] = s.Now()
		p.note("NodePool %s template terminationGracePeriod set=%v (drifting)", name, set)
	default:
		return false
	}
	return true
}

func budgetsString(bs []v1.Budget) string {
	var out []string
	for _, b := range bs {
		x := b.Nodes
		if b.Schedule != nil {
			x += fmt.Sprintf("@%q+%s", *b.Schedule, b.Duration.Duration)
		}
		if len(b.Reasons) > 0 {
			x += fmt.Sprintf("%v", b.Reasons)
		}
		out = append(out, x)
	}
	return strings.Join(out, " ")
}

// ---------- observation of commands

func objKey(kind string, o client.Object) string {
	return kind + "/" + o.GetNamespace() + "/" + o.GetName()
}

func (p *provProfile) disruptObserve() {
	s := p.s
	d := p.d
	p.e.FeedChannelQueues()
	p.e.FeedChannelQueuesLevel(d.evWasIn, nil)
	p.rsPump()
	q, _ := p.e.Parts["disruptionQueue"].(*disruption.Queue)
	if q == nil {
		return
	}
	live := map[string]bool{}
	cmds := q.GetCommands()
	firstCand := func(c *disruption.Command) string {
		if len(c.Candidates) == 0 {
			return ""
		}
		return c.Candidates[0].NodeClaim.Name
	}
	sort.Slice(cmds, func(i, j int) bool { return firstCand(cmds[i]) < firstCand(cmds[j]) })
	seenPID := map[string]string{}
	for _, c := range cmds {
		uid := c.ID.String()
		live[uid] = true
		ci := d.cmds[uid]
		id := ""
		if ci != nil {
			id = ci.id
		}
		if ci == nil {
			id = fmt.Sprintf("cmd-%d", len(d.cmdList)+1)
			ci = &cmdInfo{id: id, cmd: c, reason: c.Reason(), firstStep: s.step, firstAt: s.Now(), created: c.CreationTimestamp, decider: s.LastRun}
			d.cmdList = append(d.cmdList, ci)
			for _, cand := range c.Candidates {
				ci.cands = append(ci.cands, candInfo{nodeClaim: cand.NodeClaim.Name, node: cand.Node.Name, pid: cand.ProviderID(), pool: cand.NodePool.Name, price: cand.Price})
			}
			d.cmds[uid] = ci
			s.Probe("command")
			s.Probe("command-" + string(c.Reason()))
			if len(c.Replacements) > 0 {
				s.Probe("command-with-replacement")
			}
			if len(c.Candidates) > 1 {
				s.Probe("command-multi-candidate")
			}
			for _, x := range ci.cands {
				d.byCand[x.nodeClaim] = ci
			}
			p.onCommandAccepted(ci)
		}
		ci.repl = ci.repl[:0]
		for _, r := range c.Replacements {
			ci.repl = append(ci.repl, r.Name)
		}
		// C08: a node is never the subject of two concurrent actions
		for _, cand := range c.Candidates {
			if other, dup := seenPID[cand.ProviderID()]; dup && other != id {
				s.Violate("C08", "two-commands-one-node", "node %s is a candidate of two concurrent commands %s and %s", cand.Node.Name, other, id)
			}
			seenPID[cand.ProviderID()] = id
		}
	}
	for _, ci := range d.cmdList {
		id := ci.id
		if ci.gone || live[ci.cmd.ID.String()] {
			continue
		}
		ci.gone = true
		for _, x := range ci.cands {
			if d.byCand[x.nodeClaim] == ci {
				delete(d.byCand, x.nodeClaim)
			}
		}
		if ci.cmd.Succeeded {
			s.Probe("command-succeeded")
		} else {
			s.Probe("command-failed")
			if ci.deletes > 0 && !ci.faulted {
				s.Violate("C08", "failed-command-deleted-candidates", "command %s (%s) ended unsuccessfully but %d candidate NodeClaim(s) were deleted by it", id, ci.reason, ci.deletes)
			}
		}
	}
}

// ---------- C08 seam oracle: candidate deletes by the queue

func (p *provProfile) disruptOnWrite(ev WatchEvent, old client.Object, by *Task) {
	d := p.d
	if ev.GVK == gvkNodeClaim && ev.Type != EvDeleted {
		if ev.Obj.(*v1.NodeClaim).StatusConditions().Get(v1.ConditionTypeInitialized).IsTrue() {
			d.initEver[ev.Obj.GetName()] = true
		}
	}
}

func (p *provProfile) disruptOnDeliver(ev WatchEvent) {
	p.d.lastCache[objKey(ev.GVK.Kind, ev.Obj)] = p.s.step
}

func (p *provProfile) disruptTaskDone(t *Task) {
	s := p.s
	d := p.d
	delete(d.nominatedAt, t.ID)
	switch t.Ctrl.Name {
	case "disruption", "disruption.queue":
		if t.Panic != nil {
			s.Violate("C08", "controller-crash", "%s panicked: %v\n%s", t.Ctrl.Name, t.Panic, firstLines(t.PanicSt, 14))
		}
	}
	if t.Ctrl.Name != "disruption.queue" {
		return
	}
	for _, w := range t.Writes {
		if w.Kind != "NodeClaim" || !strings.HasPrefix(w.Verb, "delete") {
			continue
		}
		name := strings.TrimPrefix(w.Key, "/")
		ci := d.byCand[name]
		if ci == nil {
			// the command may already be complete by the time the task is collected
			for _, c := range d.cmdList {
				for _, x := range c.cands {
					if x.nodeClaim == name && c.firstStep <= w.Step {
						ci = c
					}
				}
			}
		}
		if ci == nil {
			s.Violate("C08", "delete-outside-command", "disruption.queue deleted NodeClaim %s which is not a candidate of any observed command", name)
			continue
		}
		if w.Fault != FNone {
			ci.faulted = true
		}
		if w.Fault == FErrBefore {
			continue
		}
		if w.Err == nil || w.Fault == FErrAfter {
			ci.deletes++
		}
		s.Probe("candidate-delete")
		for _, r := range ci.cmd.Replacements {
			if r.Name == "" {
				s.Violate("C08", "candidate-deleted-before-replacement-created", "command %s: candidate NodeClaim %s deleted although a replacement has not been created", ci.id, name)
				continue
			}
			if !d.initEver[r.Name] {
				s.Violate("C08", "candidate-deleted-before-replacement-initialized", "command %s (%s): candidate NodeClaim %s deleted although replacement %s has never reported Initialized=True", ci.id, ci.reason, name, r.Name)
			}
		}
	}
}

// ---------- oracles at command acceptance: C05 budgets, C06 price, C07 blockers

func (p *provProfile) onCommandAccepted(ci *cmdInfo) {
	p.checkBudgets(ci)
	p.checkBlockers(ci)
	p.checkSavings(ci)
}

func nodeReadyTrue(n *corev1.Node) bool { return nodeIsReady(n) }

func (p *provProfile) checkBudgets(ci *cmdInfo) {
	s := p.s
	// Karpenter's view of the pool's nodes at acceptance (which nodes exist, are initialized, ready, deleting) comes
	// from the API objects in its cluster state; which nodes are *being disrupted by a command still in flight* is
	// taken from the simulator's own record of accepted commands, never from the deletion marks under test
	liveCand := map[string]bool{}
	if q, _ := p.e.Parts["disruptionQueue"].(*disruption.Queue); q != nil {
		for _, c := range q.GetCommands() {
			if other := p.d.cmds[c.ID.String()]; other != nil || c.ID == ci.cmd.ID {
				for _, cand := range c.Candidates {
					liveCand[cand.ProviderID()] = true
				}
			}
		}
	}
	total := map[string]int{}
	disrupting := map[string]int{}
	for n := range p.e.Cluster.Nodes() {
		if !n.Managed() || !n.Initialized() || n.Node == nil {
			continue
		}
		if n.NodeClaim.StatusConditions().Get(v1.ConditionTypeInstanceTerminating).IsTrue() {
			continue
		}
		pool := n.Labels()[v1.NodePoolLabelKey]
		total[pool]++
		tainted := false
		for _, t := range n.Node.Spec.Taints {
			if t.Key == v1.DisruptedTaintKey {
				tainted = true
			}
		}
		_ = tainted
		deleting := n.Node.DeletionTimestamp != nil || n.NodeClaim.DeletionTimestamp != nil
		if !nodeReadyTrue(n.Node) || deleting || liveCand[n.ProviderID()] {
			disrupting[pool]++
		}
	}
	pools := map[string]bool{}
	for _, c := range ci.cands {
		pools[c.pool] = true
	}
	// instants: the deciding task's last NodePool list and the acceptance instant
	instants := []time.Time{s.Now()}
	if ci.decider != nil {
		for i := len(ci.decider.Reads) - 1; i >= 0; i-- {
			if r := ci.decider.Reads[i]; r.Kind == "NodePool" && r.Verb == "list" {
				instants = append(instants, r.At)
				break
			}
		}
	}
	names := make([]string, 0, len(pools))
	for n := range pools {
		names = append(names, n)
	}
	sort.Strings(names)
	for _, pool := range names {
		var np *v1.NodePool
		// the NodePool version the decision was taken on (cache view)
		if o := s.cache.Get(gvkNodePool, types.NamespacedName{Name: pool}); o != nil {
			np = o.(*v1.NodePool)
		}
		if np == nil || np.Spec.Replicas != nil {
			continue
		}
		if step, ok := p.d.lastCache["NodePool//"+pool]; ok && ci.decider != nil && step >= ci.decider.StartSt {
			// spec may have changed while deciding (budgets edited): only status changes are frequent; compare budgets
			s.Probe("c05-pool-changed-while-deciding")
		}
		ok := false
		best := 0
		for _, t := range instants {
			a := allowedDisruptions(np, ci.reason, total[pool], t)
			if a > best {
				best = a
			}
			if disrupting[pool] <= a {
				ok = true
			}
		}
		s.Probe("c05-budget-checked")
		if !ok {
			s.Violate("C05", "budget-exceeded", "command %s (%s) accepted: NodePool %s now has %d of %d initialized nodes not ready / being disrupted, but its budgets (%s) allow %d", ci.id, ci.reason, pool, disrupting[pool], total[pool], budgetsString(np.Spec.Disruption.Budgets), best)
		}
	}
}

func (p *provProfile) unchangedSince(kind string, o client.Object, step int) bool {
	last, ok := p.d.lastCache[objKey(kind, o)]
	return !ok || last < step
}

func (p *provProfile) checkBlockers(ci *cmdInfo) {
	s := p.s
	d := p.d
	t := ci.decider
	if t == nil || t.Ctrl.Name != "disruption" {
		return
	}
	start := t.StartSt
	now := s.Now()
	consolidation := ci.reason == v1.DisruptionReasonEmpty || ci.reason == v1.DisruptionReasonUnderutilized
	for _, c := range ci.cands {
		s.Probe("c07-candidate-checked")
		viol := func(what string) {
			s.Violate("C07", "blocked-candidate/"+strings.Fields(what)[0], "command %s (%s) selected node %s although, for the whole time the decision took, %s", ci.id, ci.reason, c.node, what)
		}
		no := s.cache.Get(gvkNode, types.NamespacedName{Name: c.node})
		nco := s.cache.Get(gvkNodeClaim, types.NamespacedName{Name: c.nodeClaim})
		if no == nil || nco == nil {
			continue
		}
		node, nc := no.(*corev1.Node), nco.(*v1.NodeClaim)
		nodeStable := p.unchangedSince("Node", node, start)
		ncStable := p.unchangedSince("NodeClaim", nc, start)
		if nodeStable {
			if node.Labels[v1.NodeInitializedLabelKey] != "true" {
				viol("uninitialized: the node lacks the initialized label")
			}
			if node.DeletionTimestamp != nil {
				viol("deleting: the node has a deletion timestamp")
			}
			if node.Annotations[v1.DoNotDisruptAnnotationKey] == "true" {
				viol("do-not-disrupt: the node is annotated karpenter.sh/do-not-disrupt=true")
			}
		}
		if ncStable && nc.DeletionTimestamp != nil {
			viol("deleting: the NodeClaim has a deletion timestamp")
		}
		// nomination: nominated at the start of the decision and at acceptance with no nomination in between
		if d.nominatedAt[t.ID][c.pid] && p.e.Cluster.IsNodeNominated(c.pid) && d.nomEvents[c.node] < start {
			viol("nominated: the node was nominated for pending pods")
		}
		// the same from the simulator's own record of nomination events, independent of the nomination state under
		// test: a nomination announced before the deciding reconcile started protects the node for at least one batch
		// window (the configured nomination period is twice that), so a whole decision inside that span is a violation
		for _, tn := range d.nomTimes[c.node] {
			if !tn.After(t.Start) && now.Before(tn.Add(p.e.Opts.BatchMaxDuration)) {
				viol(fmt.Sprintf("nominated: a Nominated event for the node was published at %s, %v before the command was accepted", tn.Format(time.RFC3339), now.Sub(tn).Truncate(time.Second)))
				break
			}
		}
		var pool *v1.NodePool
		if o := s.cache.Get(gvkNodePool, types.NamespacedName{Name: c.pool}); o != nil {
			pool = o.(*v1.NodePool)
		}
		// pod-level blockers: overridable only by drift on NodeClaims with a terminationGracePeriod
		override := ci.reason == v1.DisruptionReasonDrifted && nc.Spec.TerminationGracePeriod != nil
		var pods []*corev1.Pod
		for _, o := range s.cache.List(gvkPod) {
			q := o.(*corev1.Pod)
			if q.Spec.NodeName == c.node {
				pods = append(pods, q)
			}
		}
		nonEmpty := false
		for _, q := range pods {
			if !p.unchangedSince("Pod", q, start) {
				continue
			}
			if q.DeletionTimestamp != nil || podTerminal(q) || q.Status.Phase != corev1.PodRunning {
				continue
			}
			if !ownedBy(q, "DaemonSet") && !ownedBy(q, "Node") && q.Annotations[corev1.PodDeletionCost] == "" {
				nonEmpty = true
			}
			if override {
				continue
			}
			if dndActive(q, now) && dndActive(q, t.Start) {
				viol(fmt.Sprintf("pod-do-not-disrupt: pod %s carries an active do-not-disrupt annotation (%s)", q.Name, q.Annotations[v1.DoNotDisruptAnnotationKey]))
			}
			if !ownedBy(q, "DaemonSet") && !ownedBy(q, "Node") && !toleratesDisruption(q) {
				if pdb := p.blockingPDB(q, start); pdb != "" {
					viol(fmt.Sprintf("pdb: pod %s is covered by PodDisruptionBudget %s which allows no disruption", q.Name, pdb))
				}
			}
		}
		if consolidation && pool != nil && p.unchangedSince("NodePool", pool, start) {
			if pool.Spec.Replicas != nil {
				viol("static-pool: the NodePool is static")
			}
			if pool.Spec.Disruption.ConsolidateAfter.Duration == nil {
				viol("consolidation-disabled: the NodePool has consolidateAfter: Never")
			}
			if nonEmpty && pool.Spec.Disruption.ConsolidationPolicy == v1.ConsolidationPolicyWhenEmpty {
				viol("when-empty-policy: the NodePool only consolidates empty nodes and the node hosts reschedulable pods")
			}
		}
		if consolidation && ncStable && !nc.StatusConditions().Get(v1.ConditionTypeConsolidatable).IsTrue() {
			viol("not-consolidatable: the NodeClaim is not Consolidatable")
		}
		// C06 (c): Empty means no reschedulable pod with positive eviction cost
		if ci.reason == v1.DisruptionReasonEmpty && nonEmpty {
			s.Violate("C06", "non-empty-deleted-as-empty", "command %s deletes node %s as Empty although a reschedulable pod with positive eviction cost was bound to it for the whole time the decision took", ci.id, c.node)
		}
	}
}

func (p *provProfile) blockingPDB(pod *corev1.Pod, start int) string {
	for _, o := range p.s.cache.List(gvkPDB) {
		pdb := o.(*policyv1.PodDisruptionBudget)
		if pdb.Namespace != pod.Namespace || !p.unchangedSince("PodDisruptionBudget", pdb, start) {
			continue
		}
		sel, err := metav1.LabelSelectorAsSelector(pdb.Spec.Selector)
		if err != nil || !sel.Matches(labels.Set(pod.Labels)) {
			continue
		}
		if pdb.Status.DisruptionsAllowed == 0 {
			return pdb.Name
		}
	}
	return ""
}

// checkSavings: C06 (b) every launch the written replacement permits is strictly cheaper than the
// candidates it replaces.
func (p *provProfile) checkSavings(ci *cmdInfo) {
	s := p.s
	if ci.reason != v1.DisruptionReasonUnderutilized && ci.reason != v1.DisruptionReasonEmpty {
		return
	}
	if len(ci.cmd.Replacements) > 1 {
		s.Violate("C06", "multiple-replacements", "consolidation command %s has %d replacements", ci.id, len(ci.cmd.Replacements))
		return
	}
	// the plan the command was decided on (its own simulation results, node snapshots of decision time): every pod
	// that has to move off a candidate finds its home on an *initialized* remaining node or on the one replacement
	candNode := map[string]bool{}
	for _, c := range ci.cands {
		candNode[c.node] = true
	}
	for _, e := range ci.cmd.Results.ExistingNodes {
		if e == nil || e.StateNode == nil || e.NodeClaim == nil || len(e.Pods) == 0 {
			continue
		}
		s.Probe("c06-plan-destination-checked")
		initialized := e.Node != nil && e.Node.Labels[v1.NodeInitializedLabelKey] == "true"
		if initialized {
			continue
		}
		for _, q := range e.Pods {
			if q.Spec.NodeName != "" && candNode[q.Spec.NodeName] {
				s.Violate("C06", "plan-relies-on-uninitialized-node", "consolidation command %s (%s) moves pod %s from candidate %s to %s, which was not initialized when the command was decided", ci.id, ci.reason, q.Name, q.Spec.NodeName, e.Name())
				return
			}
		}
	}
	if len(ci.cmd.Replacements) == 0 {
		return
	}
	name := ci.cmd.Replacements[0].Name
	o := s.store.Get(gvkNodeClaim, types.NamespacedName{Name: name})
	if o == nil {
		return
	}
	nc := o.(*v1.NodeClaim)
	// candidate prices from the catalog (price model): the offering the node runs on
	sum := 0.0
	allOnDemand, allSpot := true, true
	for _, c := range ci.cands {
		no := s.store.Get(gvkNode, types.NamespacedName{Name: c.node})
		if no == nil {
			return
		}
		n := no.(*corev1.Node)
		price, ok := p.offeringPrice(c.pool, n.Labels[corev1.LabelInstanceTypeStable], n.Labels[corev1.LabelTopologyZone], n.Labels[v1.CapacityTypeLabelKey])
		if !ok {
			return
		}
		sum += price
		if n.Labels[v1.CapacityTypeLabelKey] != v1.CapacityTypeOnDemand {
			allOnDemand = false
		}
		if n.Labels[v1.CapacityTypeLabelKey] != v1.CapacityTypeSpot {
			allSpot = false
		}
	}
	opts := p.e.CP.LaunchOptions(nc, p.e.CP.typesFor(nc.Labels[v1.NodePoolLabelKey]))
	s.Probe("c06-replacement-checked")
	types_ := map[string]bool{}
	for _, o := range opts {
		types_[o.it.Name] = true
		if !(o.of.Price < sum) {
			s.Violate("C06", "replacement-not-cheaper", "command %s replaces nodes costing %.5f in total by NodeClaim %s, which may be launched as %s in %s/%s at price %.5f", ci.id, sum, name, o.it.Name, o.of.Zone(), o.of.CapacityType(), o.of.Price)
			return
		}
		if allOnDemand && o.of.CapacityType() == v1.CapacityTypeOnDemand && o.of.Price >= sum {
			s.Violate("C06", "on-demand-fallback", "command %s: on-demand nodes replaced by a request that can launch on-demand at %.5f >= %.5f", ci.id, o.of.Price, sum)
		}
	}
	if allSpot && len(opts) > 0 && opts[0].of.CapacityType() == v1.CapacityTypeSpot {
		if !p.e.Opts.FeatureGates.SpotToSpotConsolidation {
			s.Violate("C06", "spot-to-spot-disabled", "command %s replaces spot nodes by a spot launch although SpotToSpotConsolidation is disabled", ci.id)
		} else if len(ci.cands) == 1 && len(types_) < 15 {
			s.Violate("C06", "spot-to-spot-too-few-types", "command %s: single-node spot-to-spot replacement with only %d cheaper instance types (15 required)", ci.id, len(types_))
		}
	}
	// also surface all-OnDemand check on the spec itself: an on-demand node must not be replaced by a request that
	// can fall back to on-demand at an equal or higher price when spot is unavailable (every on-demand offering the
	// written requirements permit, not only the one taking precedence)
	if allOnDemand {
		for _, it := range p.e.CP.typesFor(nc.Labels[v1.NodePoolLabelKey]) {
			named := false
			for _, n := range namedInstanceTypes(nc) {
				if n == it.Name {
					named = true
				}
			}
			if !named {
				continue
			}
			for _, of := range permittedOfferings(nc, it) {
				if of.CapacityType() == v1.CapacityTypeOnDemand && of.Price >= sum {
					s.Violate("C06", "on-demand-fallback", "command %s: on-demand nodes costing %.5f replaced by NodeClaim %s whose requirements also permit on-demand %s at %.5f", ci.id, sum, name, it.Name, of.Price)
					return
				}
			}
		}
	}
}

func (p *provProfile) offeringPrice(pool, it, zone, ct string) (float64, bool) {
	for _, x := range p.e.CP.typesFor(pool) {
		if x.Name != it {
			continue
		}
		for _, of := range x.Offerings {
			if of.Zone() == zone && of.CapacityType() == ct {
				return of.Price, true
			}
		}
	}
	return 0, false
}

// ---------- C18: what-if simulations have no side effects

func (p *provProfile) digest() (string, string, string) {
	s := p.s
	h := fnv.New64a()
	for gvk, m := range s.store.objs {
		_ = m
		for _, o := range s.store.List(gvk) {
			fmt.Fprintf(h, "%s/%s/%s@%s;", gvk.Kind, o.GetNamespace(), o.GetName(), o.GetResourceVersion())
		}
	}
	// order-independent: XOR of per-kind hashes is not needed because List() is sorted, but kinds are a map
	apiDigest := fmt.Sprintf("rv=%d ev=%d", s.store.rv, s.store.evSeq)
	var parts []string
	snap := snapshotCluster(p.e.Cluster, p.pools)
	keys := make([]string, 0, len(snap))
	for k := range snap {
		keys = append(keys, k)
	}
	sort.Strings(keys)
	for _, k := range keys {
		fs := make([]string, 0)
		for f, v := range snap[k] {
			fs = append(fs, f+"="+v)
		}
		sort.Strings(fs)
		parts = append(parts, k+"{"+strings.Join(fs, ",")+"}")
	}
	for n := range p.e.Cluster.Nodes() {
		parts = append(parts, fmt.Sprintf("nom:%s=%v", n.ProviderID(), n.Nominated(s.Clock)))
	}
	sort.Strings(parts)
	var its []string
	for _, it := range p.e.CP.Catalog {
		x := fmt.Sprintf("%s|%s|%s|", it.Name, rlString(it.Capacity), it.Requirements.String())
		for _, of := range it.Offerings {
			x += fmt.Sprintf("%s/%s/%.6f/%v/%d;", of.Zone(), of.CapacityType(), of.Price, of.Available, of.ReservationCapacity)
		}
		its = append(its, x)
	}
	return apiDigest, strings.Join(parts, "\n"), strings.Join(its, "\n")
}

func (p *provProfile) whatIf() {
	s := p.s
	q, _ := p.e.Parts["disruptionQueue"].(*disruption.Queue)
	pr, _ := p.e.Parts["provisioner"].(*provisioning.Provisioner)
	if q == nil || pr == nil || !p.e.Cluster.Synced(s.EnvCtx()) {
		return
	}
	n := 1 + p.ch.Pick("whatif.n", 3)
	subset := p.ch.Pick("whatif.subset", 1<<12)
	timeout := p.ch.Pick("whatif.timeout", 4) == 0
	a0, c0, i0 := p.digest()
	writesBefore := s.store.evSeq
	var errStr string
	// the candidates (with the pods they carry) are collected once and reused by the following simulations, as a
	// disruption pass does (binary search, single-node loop, validation): a simulation must leave them as it got them
	reuse := p.ch.Pick("whatif.reuse", 2) == 1
	var cands []*disruption.Candidate
	var podsBefore, podsChanged string
	t := s.RunAtomic("whatif", func(ctx context.Context) {
		for i := 0; i < n; i++ {
			if i == 0 || !reuse {
				var err error
				cands, err = disruption.GetCandidates(ctx, p.e.Cluster, p.e.C, p.e.Rec, s.Clock, p.e.CP, func(context.Context, *disruption.Candidate) bool { return true }, disruption.GracefulDisruptionClass, q)
				if err != nil {
					errStr = err.Error()
					return
				}
				podsBefore = candidatePodsDigest(cands)
			}
			var pick []*disruption.Candidate
			for j, c := range cands {
				if subset&(1<<uint(j%12)) != 0 {
					pick = append(pick, c)
				}
			}
			if len(pick) == 0 {
				continue
			}
			sctx := ctx
			if timeout {
				var cancel context.CancelFunc
				sctx, cancel = context.WithCancel(ctx)
				cancel()
			}
			_, _ = disruption.SimulateScheduling(sctx, p.e.C, p.e.Cluster, pr, s.Clock, p.e.Rec, nil, pick...)
			s.Probe("c18-simulation")
			if after := candidatePodsDigest(cands); after != podsBefore && podsChanged == "" {
				podsChanged = firstDiffLine(podsBefore, after)
			}
		}
	})
	if t.Panic != nil {
		s.Violate("C18", "simulation-crash", "what-if simulation panicked: %v\n%s", t.Panic, firstLines(t.PanicSt, 12))
		return
	}
	_ = errStr
	p.d.whatIfs++
	if podsChanged != "" {
		s.Violate("C18", "simulation-changed-candidate-pods", "a scheduling simulation modified the pods of the candidates it was given (they are reused by the next simulation of the same pass): %s", podsChanged)
		return
	}
	for _, w := range t.Writes {
		if w.Fault == FNone {
			s.Violate("C18", "simulation-wrote", "a scheduling simulation issued a write: %s %s %s %s", w.Seam, w.Verb, w.Kind, w.Key)
			return
		}
	}
	if s.store.evSeq != writesBefore {
		s.Violate("C18", "simulation-wrote", "API objects changed during a scheduling simulation")
		return
	}
	a1, c1, i1 := p.digest()
	if a0 != a1 {
		s.Violate("C18", "simulation-changed-api", "API digest changed across a scheduling simulation: %s -> %s", a0, a1)
	}
	if c0 != c1 {
		s.Violate("C18", "simulation-changed-cluster-state", "cluster state changed across a scheduling simulation: %s", firstDiffLine(c0, c1))
	}
	if i0 != i1 {
		s.Violate("C18", "simulation-changed-instance-types", "provider instance types / offerings changed across a scheduling simulation: %s", firstDiffLine(i0, i1))
	}
}

// candidatePodsDigest: one line per pod a candidate carries (its reschedulable pods, an unexported field read through
// reflection), with the JSON of its spec.
func candidatePodsDigest(cands []*disruption.Candidate) string {
	var lines []string
	for _, c := range cands {
		f := reflect.ValueOf(c).Elem().FieldByName("reschedulablePods")
		if !f.IsValid() {
			continue
		}
		pods := *(*[]*corev1.Pod)(unsafe.Pointer(f.UnsafeAddr()))
		for _, q := range pods {
			b, _ := json.Marshal(q.Spec)
			lines = append(lines, fmt.Sprintf("%s/%s %s", c.Name(), q.Name, b))
		}
	}
	sort.Strings(lines)
	return strings.Join(lines, "\n")
}

func firstDiffLine(a, b string) string {
	la, lb := strings.Split(a, "\n"), strings.Split(b, "\n")
	for i := 0; i < len(la) || i < len(lb); i++ {
		x, y := "", ""
		if i < len(la) {
			x = la[i]
		}
		if i < len(lb) {
			y = lb[i]
		}
		if x != y {
			if len(x) > 300 {
				x = x[:300]
			}
			if len(y) > 300 {
				y = y[:300]
			}
			return fmt.Sprintf("before %q after %q", x, y)
		}
	}
	return ""
}

// ---------- end of run: C08 liveness (rollback and no stuck command)

func (p *provProfile) disruptFinal() {
	s := p.s
	d := p.d
	q, _ := p.e.Parts["disruptionQueue"].(*disruption.Queue)
	if q == nil {
		return
	}
	live := map[string]bool{}
	cmds := q.GetCommands()
	sort.Slice(cmds, func(i, j int) bool { return d.cmds[cmds[i].ID.String()].id < d.cmds[cmds[j].ID.String()].id })
	for _, c := range cmds {
		for _, cand := range c.Candidates {
			live[cand.ProviderID()] = true
		}
		// "the action times out ... the candidates return to service": the queue bounds an action by a retry
		// duration (documented as at most an hour). A command that outlived it by a wide margin must not still hold a
		// candidate that is neither deleted nor back in service. A command whose candidates are all gone holds nothing
		// the property speaks about.
		age := s.Now().Sub(c.CreationTimestamp)
		if age <= 75*time.Minute {
			continue
		}
		s.Probe("c08-command-outlived-timeout")
		for _, cand := range c.Candidates {
			srvN := s.store.Get(gvkNode, types.NamespacedName{Name: cand.Node.Name})
			srvC := s.store.Get(gvkNodeClaim, types.NamespacedName{Name: cand.NodeClaim.Name})
			if srvN == nil || srvC == nil || srvN.GetDeletionTimestamp() != nil || srvC.GetDeletionTimestamp() != nil {
				continue
			}
			tainted := false
			for _, t := range srvN.(*corev1.Node).Spec.Taints {
				if t.Key == v1.DisruptedTaintKey {
					tainted = true
				}
			}
			cond := srvC.(*v1.NodeClaim).StatusConditions().Get(v1.ConditionTypeDisruptionReason) != nil
			marked := false
			for n := range p.e.Cluster.Nodes() {
				if n.ProviderID() == cand.ProviderID() && n.MarkedForDeletion() {
					marked = true
				}
			}
			if tainted || cond || marked {
				s.Violate("C08", "candidate-stranded", "command %s (%s, %d candidates, %d replacements) is still in the orchestration queue %v after it was created and never timed out; its candidate %s was neither deleted nor returned to service (disruption taint=%v, DisruptionReason condition=%v, marked for deletion=%v)",
					d.cmds[c.ID.String()].id, c.Reason(), len(c.Candidates), len(c.Replacements), age.Truncate(time.Second), cand.NodeClaim.Name, tainted, cond, marked)
				break
			}
		}
	}
	if p.tailOK {
		for n := range p.e.Cluster.Nodes() {
			if n.Node == nil || n.NodeClaim == nil || live[n.ProviderID()] {
				continue
			}
			if n.NodeClaim.DeletionTimestamp != nil || n.Node.DeletionTimestamp != nil {
				continue
			}
			srvN := s.store.Get(gvkNode, types.NamespacedName{Name: n.Node.Name})
			srvC := s.store.Get(gvkNodeClaim, types.NamespacedName{Name: n.NodeClaim.Name})
			if srvN == nil || srvC == nil || srvN.GetDeletionTimestamp() != nil || srvC.GetDeletionTimestamp() != nil {
				continue
			}
			for _, t := range srvN.(*corev1.Node).Spec.Taints {
				if t.Key == v1.DisruptedTaintKey {
					s.Violate("C08", "taint-not-rolled-back", "long after faults stopped node %s still carries the disruption taint although it is in no live command and is not being deleted", n.Node.Name)
				}
			}
			if srvC.(*v1.NodeClaim).StatusConditions().Get(v1.ConditionTypeDisruptionReason) != nil {
				s.Violate("C08", "condition-not-rolled-back", "long after faults stopped NodeClaim %s still has a DisruptionReason condition although it is in no live command", n.NodeClaim.Name)
			}
			if n.MarkedForDeletion() {
				s.Violate("C08", "mark-not-rolled-back", "long after faults stopped node %s is still marked for deletion in cluster state although it is in no live command and is not being deleted", n.Node.Name)
			}
		}
	}
	_ = d
}

var _ = events.Nominated
