package sim

// Profile `prov` (C01, C03 dynamic limits, C04, C15, C19): the real provisioner, scheduler,
// cluster state, lifecycle and NodePool controllers run against generated NodePools, catalogs,
// daemonsets and pod waves; the simulated provider launches any permitted type (worst case
// biased), the kubelet registers nodes at seeded times and a kube-scheduler actor binds pods to
// any node the independent admissibility model accepts. Scheduling passes therefore see existing,
// in-flight, registering and deleting nodes that arise from simulated lifecycles.

import (
	"encoding/json"
	"fmt"
	"os"
	"sort"
	"strings"
	"time"

	appsv1 "k8s.io/api/apps/v1"
	corev1 "k8s.io/api/core/v1"
	"k8s.io/apimachinery/pkg/api/resource"
	metav1 "k8s.io/apimachinery/pkg/apis/meta/v1"
	"k8s.io/apimachinery/pkg/types"
	"k8s.io/utils/ptr"
	"sigs.k8s.io/controller-runtime/pkg/client"

	v1 "sigs.k8s.io/karpenter/pkg/apis/v1"
	"sigs.k8s.io/karpenter/pkg/cloudprovider"
	provscheduling "sigs.k8s.io/karpenter/pkg/controllers/provisioning/scheduling"
	"sigs.k8s.io/karpenter/pkg/events"
	"sigs.k8s.io/karpenter/pkg/operator/options"
	"sigs.k8s.io/karpenter/pkg/scheduling"
)

type passInfo struct {
	task      *Task
	startStep int
	evSeq     uint64
	checked   bool // caches caught up when the pass took its snapshot
	nodes     []*corev1.Node
	pods      []*corev1.Pod
	ncs       []*v1.NodeClaim
	pools     []*v1.NodePool
	daemons   []*corev1.Pod
	sv        *StorageView
	toNode    map[types.UID]string   // pod -> existing node / in-flight nodeclaim name ("node/x" or "nodeclaim/x")
	toNew     map[types.UID]string   // pod -> new nodeclaim name
	order     map[string][]types.UID // target -> pods in nomination order
	created   map[string]*v1.NodeClaim
	limitEdit bool
}

type provProfile struct {
	e      *Env
	s      *Sim
	ch     *Chooser
	k      *Kubelet
	ks     *KubeScheduler
	ops    []string
	nPod   int
	nDep   int
	pools  []string
	zones  []string
	passes map[int]*passInfo
	// bookkeeping
	ackedNC     map[string]int  // nodeclaim name -> incarnation whose Create of the object was acknowledged
	ncPods      map[string][]types.UID
	ncChecked   map[string]bool
	limitEdited map[string]int // pool -> step of the last user edit of limits
	driftEdit   map[string]time.Time
	ncTemplate  map[string]string // nodeclaim name -> JSON of the NodePool template its creating task had read
	noLimits    bool
	saltByTask  map[int]*subRand
	dsTemplates []*appsv1.DaemonSet
	disrupt     bool
	interpod    bool
	d           *disruptState
	rsQueue     []string
	tailOK      bool
}

func init() { Profiles["prov"] = func() Profile { return &provProfile{} } }

func (p *provProfile) Name() string { return "prov" }

func (p *provProfile) note(format string, a ...interface{}) {
	m := fmt.Sprintf(format, a...)
	if len(p.ops) < 200 {
		p.ops = append(p.ops, fmt.Sprintf("t=%s %s", p.s.Elapsed().Truncate(time.Second), m))
	}
	p.s.Logf("op   %s", m)
}

func (p *provProfile) build() {
	p.e.resetManager()
	if p.d != nil {
		// nominations live in memory only: a new incarnation knows nothing of those announced before the restart
		p.d.nomTimes = map[string][]time.Time{}
	}
	p.e.AddStateControllers()
	p.e.AddNodePoolControllers()
	p.e.AddLifecycle()
	p.e.AddNodeClaimDisruption()
	p.e.AddProvisioning()
	if p.disrupt {
		p.buildDisrupt()
	}
	p.s.Mgr.Resync()
}

func (p *provProfile) Run(s *Sim) {
	p.s, p.ch = s, s.Ch
	ch := s.Ch
	p.e = NewEnv(s)
	p.e.Opts = DefaultOptions()
	s.DrawKnobs()
	s.Knobs.PCrash /= 25 // long runs: keep restarts to a handful per run
	p.passes = map[int]*passInfo{}
	p.ackedNC = map[string]int{}
	p.ncPods = map[string][]types.UID{}
	p.ncChecked = map[string]bool{}
	p.limitEdited = map[string]int{}
	p.driftEdit = map[string]time.Time{}
	p.ncTemplate = map[string]string{}
	p.saltByTask = map[int]*subRand{}
	// options seam
	p.e.Opts.CPURequests = int64(1000 * (1 + ch.Pick("prov.cpus", 8)))
	if ch.Pick("prov.prefpolicy", 3) == 0 {
		p.e.Opts.PreferencePolicy = options.PreferencePolicyIgnore
	}
	if ch.Pick("prov.minvalpolicy", 3) == 0 {
		p.e.Opts.MinValuesPolicy = options.MinValuesPolicyBestEffort
	}
	p.e.Opts.BatchIdleDuration = time.Duration(1+ch.Pick("prov.idle", 3)) * time.Second
	p.e.Opts.BatchMaxDuration = time.Duration(5+ch.Pick("prov.max", 10)) * time.Second
	oldMax := provscheduling.MaxInstanceTypes
	provscheduling.MaxInstanceTypes = []int{60, 3, 8, 600, 3, 5}[ch.Pick("prov.maxits", 6)]
	defer func() { provscheduling.MaxInstanceTypes = oldMax }()
	provscheduling.VerifParallelize = p.parallelize
	defer func() { provscheduling.VerifParallelize = nil }()

	p.zones = []string{"zone-a", "zone-b", "zone-c"}[:1+ch.Pick("prov.zones", 3)]
	// capacity reservations (a handful of instances at a price near zero that run out) only in the disruption runs
	reserved := p.disrupt && ch.Pick("dis.reserved", 3) == 0
	p.e.CP.Catalog = GenCatalog(ch, CatalogSpec{Types: 3 + ch.Pick("prov.types", 10), Zones: p.zones, Spot: true, Reserved: reserved, GPU: ch.Pick("prov.gpu", 3) == 0, Arm: ch.Pick("prov.arm", 3) == 0, Ties: true})
	p.e.CP.WorstBias = []int{50, 100, 0}[ch.Pick("prov.worst", 3)]
	p.k = NewKubelet(p.e)
	p.k.RegDelayMax = 90 * time.Second
	if p.disrupt && ch.Pick("dis.slowboot", 4) == 3 {
		// some fleets boot slowly: a replacement may need longer than the orchestration queue's retry duration
		p.k.RegDelayMax = 13 * time.Minute
	}
	p.k.ReadyDelayMax = 30 * time.Second
	p.k.WatchPods()
	p.k.StartCCM(40 * time.Second)
	if !s.Cfg.NoFaults {
		p.k.PNoRegister = []float64{0, 0.1}[ch.Pick("prov.pnoreg", 2)]
		p.k.PLateDevices = []float64{0, 0.5}[ch.Pick("prov.plate", 2)]
		p.k.PStuckStartup = []float64{0, 0.1}[ch.Pick("prov.pstuck", 2)]
		if p.disrupt {
			// nodes that go NotReady (Ready=False or Unknown) for a while count against the disruption budgets
			p.k.PFlap = []float64{0, 0.15}[ch.Pick("dis.pflap", 2)]
		}
	}
	s.Clock.LazyRule = func(t *Task, d time.Duration, nth int) bool { return t.Ctrl.Name == "provisioner" && d == time.Second && nth == 0 }
	p.e.Rec.OnEvent = append(p.e.Rec.OnEvent, p.onEvent)
	p.e.CP.OnCreate = append(p.e.CP.OnCreate, p.onProviderCreate)
	s.store.OnWrite = append(s.store.OnWrite, p.onWrite)
	s.OnTaskDone(p.onTaskDone)
	s.AddObserver(p.observe)
	if p.disrupt {
		p.setupDisrupt()
		s.store.OnWrite = append(s.store.OnWrite, p.rsOnWrite, p.disruptOnWrite)
		s.OnTaskDone(p.disruptTaskDone)
		s.AddObserver(p.disruptObserve)
	}

	s.Boot(p.e.BaseCtx(), p.build)
	if p.disrupt {
		s.Mgr.OnDeliver = append(s.Mgr.OnDeliver, p.disruptOnDeliver)
	}
	p.e.DefaultNodeClass()
	must(s.store.Create(&corev1.Namespace{ObjectMeta: metav1.ObjectMeta{Name: "default"}}, nil))
	p.noLimits = ch.Pick("prov.nolimits", 2) == 0 || p.disrupt
	nPools := 1 + ch.Pick("prov.npools", 4)
	for i := 0; i < nPools; i++ {
		np := p.genNodePool(fmt.Sprintf("pool-%d", i))
		if p.disrupt {
			p.genDisruptionSettings(np)
		}
		must(s.store.Create(np, nil))
		p.pools = append(p.pools, np.Name)
	}
	// nodes Karpenter does not manage (brought up by someone else): they carry only the labels their owner set, so
	// well-known labels such as zone or capacity type may be missing
	if ch.Pick("prov.byo", 3) == 0 {
		for i := 0; i < 1+ch.Pick("prov.nbyo", 2); i++ {
			name := fmt.Sprintf("byo-%d", i)
			n := &corev1.Node{ObjectMeta: metav1.ObjectMeta{Name: name, Labels: map[string]string{corev1.LabelHostname: name, corev1.LabelOSStable: "linux"}}}
			if ch.Pick("prov.byoarch", 2) == 0 {
				n.Labels[corev1.LabelArchStable] = "amd64"
			}
			if ch.Pick("prov.byozone", 3) != 0 {
				n.Labels[corev1.LabelTopologyZone] = p.zones[0]
			}
			n.Spec.ProviderID = "byo://" + name
			cpu := []string{"4", "16"}[ch.Pick("prov.byocpu", 2)]
			n.Status.Capacity = corev1.ResourceList{corev1.ResourceCPU: resource.MustParse(cpu), corev1.ResourceMemory: resource.MustParse("32Gi"), corev1.ResourcePods: resource.MustParse("30")}
			n.Status.Allocatable = n.Status.Capacity.DeepCopy()
			n.Status.Conditions = []corev1.NodeCondition{{Type: corev1.NodeReady, Status: corev1.ConditionTrue, LastTransitionTime: s.store.now()}}
			must(s.store.Create(n, nil))
			s.Stat("env.node.unmanaged")
		}
	}
	for i := 0; i < ch.Pick("prov.nds", 4); i++ {
		ds := p.genDaemonSet(fmt.Sprintf("ds-%d", i))
		p.dsTemplates = append(p.dsTemplates, must(s.store.Create(ds, nil)).(*appsv1.DaemonSet))
	}
	p.ks = NewKubeScheduler(p.e)
	p.ks.PBind = []float64{0.7, 0.3, 1.0}[ch.Pick("prov.pbind", 3)]
	p.ks.GiveUp = time.Duration(3+ch.Pick("prov.giveup", 4)) * time.Minute
	p.interpod = ch.Pick("prov.interpod", 2) == 0 || s.Cfg.Variant == "interpod"
	p.ks.InterPod = func(pod *corev1.Pod, node *ModelNode, nodes []*ModelNode) bool {
		return InterPodAdmits(pod, node, nodes, p.namespaces())
	}
	p.ks.OnGiveUp = func(pod *corev1.Pod) {
		if p.d == nil {
			return
		}
		for _, o := range pod.OwnerReferences {
			if o.Kind == "ReplicaSet" && p.d.rsDesired[o.Name] > 0 {
				p.d.rsDesired[o.Name]--
			}
		}
	}
	p.ks.Start()
	NewDaemonSetController(p.e)

	horizon := time.Duration(3+ch.Pick("prov.horizon", 10)) * time.Minute
	nOps := 3 + ch.Pick("prov.nops", 10)
	tail := 8 * time.Minute
	maxSteps := 12000
	if p.disrupt {
		horizon = time.Duration(8+ch.Pick("dis.horizon", 14)) * time.Minute
		nOps = 6 + ch.Pick("dis.nops", 14)
		tail = 14 * time.Minute
		maxSteps = 30000
		if ch.Pick("dis.longtail", 8) == 0 {
			tail = 80 * time.Minute
			maxSteps = 60000
		}
		// an initial load so that there is something to disrupt
		for i := 0; i < 2+ch.Pick("dis.initial", 3); i++ {
			s.AddTimer(actorUser, time.Duration(5+i)*time.Second, fmt.Sprintf("initial deployment %d", i), false, p.deploy)
		}
	}
	for i := 0; i < nOps; i++ {
		at := time.Duration(ch.Pick("prov.at", int(horizon/time.Second))) * time.Second
		if i == 0 {
			at = 5 * time.Second
		}
		if p.disrupt {
			at += 2 * time.Minute
		}
		s.AddTimer(actorUser, at, fmt.Sprintf("user op %d", i), false, p.op)
	}
	faultStop := horizon + 3*time.Minute
	s.AddTimer(actorUser, faultStop, "faults stop", false, func() { s.FaultsOn = false; s.Logf("env  faults stop") })
	end := faultStop + tail
	if !s.Cfg.NoFaults && s.Knobs.PCrash > 0 {
		s.AddActions(crashSource{s})
	}
	for s.step < maxSteps && s.Elapsed() < end && len(s.Viol) == 0 && s.Fatal == "" {
		if !s.StepOnce() {
			break
		}
	}
	if s.step >= maxSteps {
		s.Stat("prov.stepcap")
	} else if s.Elapsed() >= end {
		p.tailOK = true
	}
	p.finalChecks()
	s.Sample = p.ops
}

// ---------- H1: seeded interleaving of the scheduler's candidate-evaluation workers

func (p *provProfile) parallelize(workers, pieces int, do func(int) bool) bool {
	if pieces == 0 {
		return true
	}
	t := p.s.taskOfGoroutine()
	var r *subRand
	if t != nil {
		r = p.saltByTask[t.ID]
		if r == nil {
			// one salt per task, drawn on the simulator's behalf: the task goroutine is the only one running
			r = &subRand{s: uint64(p.s.Ch.Pick("h1.salt", 1<<30))}
			p.saltByTask[t.ID] = r
		}
	} else {
		r = &subRand{}
	}
	if workers > pieces {
		workers = pieces
	}
	if workers < 1 {
		workers = 1
	}
	const idle, holding, stopped = 0, 1, 2
	state := make([]int, workers)
	held := make([]int, workers)
	next := 0
	p.s.Stat("h1.calls")
	for {
		// enabled steps: an idle worker pulls the next piece; a holding worker finishes its piece
		type step struct{ w, kind int }
		var en []step
		for w := 0; w < workers; w++ {
			switch state[w] {
			case idle:
				if next < pieces {
					en = append(en, step{w, 0})
				}
			case holding:
				en = append(en, step{w, 1})
			}
		}
		if len(en) == 0 {
			return true
		}
		st := en[r.n(len(en))]
		if st.kind == 0 {
			held[st.w] = next
			next++
			state[st.w] = holding
			// with the default salt a worker finishes its piece before anyone else moves
			if r.s == 0 {
				if do(held[st.w]) {
					state[st.w] = idle
				} else {
					state[st.w] = stopped
				}
			}
			continue
		}
		if do(held[st.w]) {
			state[st.w] = idle
		} else {
			state[st.w] = stopped
		}
		if pieces > 1 && workers > 1 {
			p.s.Probe("h1-interleaved")
		}
	}
}

// ---------- generators

var customKey = "example.com/team"

func (p *provProfile) genNodePool(name string) *v1.NodePool {
	ch := p.ch
	np := p.e.MakeNodePool(name, ch)
	np.Spec.Weight = ptr.To(int32([]int{0, 10, 10, 50, 100}[ch.Pick("np.weight", 5)]))
	if *np.Spec.Weight == 0 {
		np.Spec.Weight = nil
	}
	var reqs []v1.NodeSelectorRequirementWithMinValues
	if ch.Pick("np.zonereq", 3) == 0 && len(p.zones) > 1 {
		k := 1 + ch.Pick("np.nzones", len(p.zones)-1)
		reqs = append(reqs, v1.NodeSelectorRequirementWithMinValues{Key: corev1.LabelTopologyZone, Operator: corev1.NodeSelectorOpIn, Values: p.zones[:k]})
	}
	switch ch.Pick("np.ct", 4) {
	case 0:
		reqs = append(reqs, v1.NodeSelectorRequirementWithMinValues{Key: v1.CapacityTypeLabelKey, Operator: corev1.NodeSelectorOpIn, Values: []string{"on-demand"}})
	case 1:
		reqs = append(reqs, v1.NodeSelectorRequirementWithMinValues{Key: v1.CapacityTypeLabelKey, Operator: corev1.NodeSelectorOpIn, Values: []string{"spot"}})
	case 2:
		reqs = append(reqs, v1.NodeSelectorRequirementWithMinValues{Key: v1.CapacityTypeLabelKey, Operator: corev1.NodeSelectorOpIn, Values: []string{"spot", "on-demand"}})
	}
	if ch.Pick("np.arch", 4) == 0 {
		reqs = append(reqs, v1.NodeSelectorRequirementWithMinValues{Key: corev1.LabelArchStable, Operator: corev1.NodeSelectorOpIn, Values: []string{"amd64"}})
	}
	if ch.Pick("np.notin", 4) == 0 {
		it := p.e.CP.Catalog[ch.Pick("np.notinit", len(p.e.CP.Catalog))]
		reqs = append(reqs, v1.NodeSelectorRequirementWithMinValues{Key: corev1.LabelInstanceTypeStable, Operator: corev1.NodeSelectorOpNotIn, Values: []string{it.Name}})
	}
	friendly := p.disrupt && ch.Pick("np.friendly", 4) != 0
	if friendly {
		// most disruption runs use plain pools so that nodes come up and can be consolidated
		np.Spec.Template.Spec.Requirements = reqs
		return np
	}
	switch ch.Pick("np.custom", 4) {
	case 0:
		reqs = append(reqs, v1.NodeSelectorRequirementWithMinValues{Key: customKey, Operator: corev1.NodeSelectorOpIn, Values: []string{"a", "b"}})
	case 1:
		reqs = append(reqs, v1.NodeSelectorRequirementWithMinValues{Key: customKey, Operator: corev1.NodeSelectorOpIn, Values: []string{"a"}})
	case 2:
		reqs = append(reqs, v1.NodeSelectorRequirementWithMinValues{Key: customKey, Operator: corev1.NodeSelectorOpExists})
	}
	np.Spec.Template.Spec.Requirements = reqs
	if ch.Pick("np.taint", 4) == 0 {
		np.Spec.Template.Spec.Taints = []corev1.Taint{{Key: "example.com/dedicated", Value: name, Effect: corev1.TaintEffectNoSchedule}}
	}
	if ch.Pick("np.startup", 5) == 0 {
		np.Spec.Template.Spec.StartupTaints = []corev1.Taint{{Key: "example.com/startup", Effect: corev1.TaintEffectNoSchedule}}
	}
	if ch.Pick("np.label", 3) == 0 {
		np.Spec.Template.Labels = map[string]string{"example.com/tier": []string{"gold", "silver"}[ch.Pick("np.labelv", 2)]}
	}
	if !p.noLimits && ch.Pick("np.limits", 2) == 0 {
		np.Spec.Limits = v1.Limits{corev1.ResourceCPU: resource.MustParse(fmt.Sprint([]int{4, 8, 16, 40}[ch.Pick("np.cpulimit", 4)]))}
		if ch.Pick("np.memlimit", 3) == 0 {
			np.Spec.Limits[corev1.ResourceMemory] = resource.MustParse(fmt.Sprintf("%dGi", []int{8, 32, 64}[ch.Pick("np.memlimitv", 3)]))
		}
	}
	return np
}

func (p *provProfile) genDaemonSet(name string) *appsv1.DaemonSet {
	ch := p.ch
	ds := &appsv1.DaemonSet{ObjectMeta: metav1.ObjectMeta{Name: name, Namespace: "default"}}
	ds.Spec.Selector = &metav1.LabelSelector{MatchLabels: map[string]string{"ds": name}}
	ds.Spec.Template.Labels = map[string]string{"ds": name}
	c := corev1.Container{Name: "c", Image: "x", Resources: corev1.ResourceRequirements{Requests: corev1.ResourceList{
		corev1.ResourceCPU:    resource.MustParse([]string{"100m", "250m", "500m"}[ch.Pick("ds.cpu", 3)]),
		corev1.ResourceMemory: resource.MustParse([]string{"64Mi", "256Mi"}[ch.Pick("ds.mem", 2)])}}}
	if ch.Pick("ds.hostport", 4) == 0 {
		c.Ports = []corev1.ContainerPort{{ContainerPort: 9100, HostPort: 9100, Protocol: corev1.ProtocolTCP}}
	}
	ds.Spec.Template.Spec.Containers = []corev1.Container{c}
	switch ch.Pick("ds.sel", 4) {
	case 0:
		ds.Spec.Template.Spec.NodeSelector = map[string]string{corev1.LabelArchStable: "amd64"}
	case 1:
		ds.Spec.Template.Spec.Affinity = &corev1.Affinity{NodeAffinity: &corev1.NodeAffinity{RequiredDuringSchedulingIgnoredDuringExecution: &corev1.NodeSelector{
			NodeSelectorTerms: []corev1.NodeSelectorTerm{{MatchExpressions: []corev1.NodeSelectorRequirement{{Key: corev1.LabelTopologyZone, Operator: corev1.NodeSelectorOpIn, Values: p.zones[:1]}}}}}}}
	}
	if ch.Pick("ds.tolerate", 2) == 0 {
		ds.Spec.Template.Spec.Tolerations = []corev1.Toleration{{Operator: corev1.TolerationOpExists}}
	}
	return ds
}

func (p *provProfile) genPodSpec() (corev1.PodSpec, map[string]string) {
	ch := p.ch
	spec := corev1.PodSpec{}
	cpu := []string{"100m", "500m", "1", "2", "3500m", "7"}[ch.Pick("pod.cpu", 6)]
	mem := []string{"128Mi", "1Gi", "4Gi", "14Gi"}[ch.Pick("pod.mem", 4)]
	c := corev1.Container{Name: "c", Image: "x", Resources: corev1.ResourceRequirements{Requests: corev1.ResourceList{corev1.ResourceCPU: resource.MustParse(cpu), corev1.ResourceMemory: resource.MustParse(mem)}}}
	if ch.Pick("pod.gpu", 8) == 0 {
		c.Resources.Requests[GPUResource] = resource.MustParse("1")
		c.Resources.Limits = corev1.ResourceList{GPUResource: resource.MustParse("1")}
	}
	if ch.Pick("pod.hostport", 6) == 0 {
		c.Ports = []corev1.ContainerPort{{ContainerPort: 80, HostPort: int32(8080 + ch.Pick("pod.hostportn", 2)), Protocol: corev1.ProtocolTCP}}
	}
	spec.Containers = []corev1.Container{c}
	if ch.Pick("pod.init", 6) == 0 {
		spec.InitContainers = []corev1.Container{{Name: "i", Image: "x", Resources: corev1.ResourceRequirements{Requests: corev1.ResourceList{corev1.ResourceCPU: resource.MustParse([]string{"2", "6"}[ch.Pick("pod.initcpu", 2)])}}}}
	}
	sel := ch.Pick("pod.sel", 8)
	if p.disrupt && sel >= 2 && sel <= 4 && ch.Pick("pod.friendly", 4) != 0 {
		sel = 7
	}
	if p.disrupt {
		c.Resources.Requests[corev1.ResourceCPU] = resource.MustParse([]string{"100m", "500m", "1", "2", "1500m", "3"}[ch.Pick("pod.cpu2", 6)])
		c.Resources.Requests[corev1.ResourceMemory] = resource.MustParse([]string{"128Mi", "1Gi", "2Gi", "512Mi"}[ch.Pick("pod.mem2", 4)])
		spec.Containers = []corev1.Container{c}
	}
	switch sel {
	case 0:
		spec.NodeSelector = map[string]string{corev1.LabelTopologyZone: p.zones[ch.Pick("pod.zone", len(p.zones))]}
	case 1:
		spec.NodeSelector = map[string]string{v1.CapacityTypeLabelKey: []string{"spot", "on-demand"}[ch.Pick("pod.ct", 2)]}
	case 2:
		spec.NodeSelector = map[string]string{customKey: []string{"a", "b", "c"}[ch.Pick("pod.team", 3)]}
	case 3:
		it := p.e.CP.Catalog[ch.Pick("pod.it", len(p.e.CP.Catalog))]
		spec.NodeSelector = map[string]string{corev1.LabelInstanceTypeStable: it.Name}
	case 4:
		spec.NodeSelector = map[string]string{corev1.LabelArchStable: []string{"amd64", "arm64"}[ch.Pick("pod.arch", 2)]}
	}
	switch ch.Pick("pod.aff", 6) {
	case 0: // two OR-ed required terms
		spec.Affinity = &corev1.Affinity{NodeAffinity: &corev1.NodeAffinity{RequiredDuringSchedulingIgnoredDuringExecution: &corev1.NodeSelector{NodeSelectorTerms: []corev1.NodeSelectorTerm{
			{MatchExpressions: []corev1.NodeSelectorRequirement{{Key: corev1.LabelTopologyZone, Operator: corev1.NodeSelectorOpIn, Values: []string{"zone-x"}}}},
			{MatchExpressions: []corev1.NodeSelectorRequirement{{Key: corev1.LabelTopologyZone, Operator: corev1.NodeSelectorOpIn, Values: []string{p.zones[ch.Pick("pod.affzone", len(p.zones))]}}}},
		}}}}
	case 1: // NotIn + preferred
		spec.Affinity = &corev1.Affinity{NodeAffinity: &corev1.NodeAffinity{
			RequiredDuringSchedulingIgnoredDuringExecution: &corev1.NodeSelector{NodeSelectorTerms: []corev1.NodeSelectorTerm{
				{MatchExpressions: []corev1.NodeSelectorRequirement{{Key: corev1.LabelTopologyZone, Operator: corev1.NodeSelectorOpNotIn, Values: []string{p.zones[0]}}}}}},
			PreferredDuringSchedulingIgnoredDuringExecution: []corev1.PreferredSchedulingTerm{{Weight: 10, Preference: corev1.NodeSelectorTerm{
				MatchExpressions: []corev1.NodeSelectorRequirement{{Key: v1.CapacityTypeLabelKey, Operator: corev1.NodeSelectorOpIn, Values: []string{"on-demand"}}}}}}}}
	case 2: // preferred only
		spec.Affinity = &corev1.Affinity{NodeAffinity: &corev1.NodeAffinity{PreferredDuringSchedulingIgnoredDuringExecution: []corev1.PreferredSchedulingTerm{{Weight: 1, Preference: corev1.NodeSelectorTerm{
			MatchExpressions: []corev1.NodeSelectorRequirement{{Key: corev1.LabelTopologyZone, Operator: corev1.NodeSelectorOpIn, Values: []string{"zone-x"}}}}}}}}
	}
	switch ch.Pick("pod.tol", 4) {
	case 0:
		spec.Tolerations = []corev1.Toleration{{Key: "example.com/dedicated", Operator: corev1.TolerationOpExists}}
	case 1:
		spec.Tolerations = []corev1.Toleration{{Key: "example.com/dedicated", Operator: corev1.TolerationOpEqual, Value: "pool-0", Effect: corev1.TaintEffectNoSchedule}}
	}
	labels := map[string]string{"app": fmt.Sprintf("d%d", p.nDep)}
	self := &metav1.LabelSelector{MatchLabels: map[string]string{"app": labels["app"]}}
	other := &metav1.LabelSelector{MatchLabels: map[string]string{"app": fmt.Sprintf("d%d", 1+ch.Pick("pod.otherapp", max(p.nDep, 1)))}}
	if p.interpod && !p.disrupt {
		key := []string{corev1.LabelHostname, corev1.LabelTopologyZone}[ch.Pick("ip.key", 2)]
		switch ch.Pick("ip.kind", 9) {
		case 0: // self anti-affinity
			spec.Affinity = ensureAffinity(spec.Affinity)
			spec.Affinity.PodAntiAffinity = &corev1.PodAntiAffinity{RequiredDuringSchedulingIgnoredDuringExecution: []corev1.PodAffinityTerm{{TopologyKey: key, LabelSelector: self}}}
		case 1: // anti-affinity against another deployment
			spec.Affinity = ensureAffinity(spec.Affinity)
			spec.Affinity.PodAntiAffinity = &corev1.PodAntiAffinity{RequiredDuringSchedulingIgnoredDuringExecution: []corev1.PodAffinityTerm{{TopologyKey: key, LabelSelector: other}}}
		case 2: // affinity to another deployment
			spec.Affinity = ensureAffinity(spec.Affinity)
			spec.Affinity.PodAffinity = &corev1.PodAffinity{RequiredDuringSchedulingIgnoredDuringExecution: []corev1.PodAffinityTerm{{TopologyKey: key, LabelSelector: other}}}
		case 3: // self affinity (bootstraps a domain)
			spec.Affinity = ensureAffinity(spec.Affinity)
			spec.Affinity.PodAffinity = &corev1.PodAffinity{RequiredDuringSchedulingIgnoredDuringExecution: []corev1.PodAffinityTerm{{TopologyKey: key, LabelSelector: self}}}
		case 4, 5: // DoNotSchedule spread
			c := corev1.TopologySpreadConstraint{TopologyKey: key, MaxSkew: int32(1 + ch.Pick("ip.skew", 2)), WhenUnsatisfiable: corev1.DoNotSchedule, LabelSelector: self}
			if ch.Pick("ip.mindomains", 4) == 0 {
				c.MinDomains = ptr.To(int32(2 + ch.Pick("ip.mindomainsv", 2)))
			}
			switch ch.Pick("ip.policies", 4) {
			case 0:
				c.NodeTaintsPolicy = ptr.To(corev1.NodeInclusionPolicyHonor)
			case 1:
				c.NodeAffinityPolicy = ptr.To(corev1.NodeInclusionPolicyIgnore)
			}
			spec.TopologySpreadConstraints = []corev1.TopologySpreadConstraint{c}
		case 6: // preferred anti-affinity + ScheduleAnyway spread (relaxable)
			spec.Affinity = ensureAffinity(spec.Affinity)
			spec.Affinity.PodAntiAffinity = &corev1.PodAntiAffinity{PreferredDuringSchedulingIgnoredDuringExecution: []corev1.WeightedPodAffinityTerm{{Weight: 10, PodAffinityTerm: corev1.PodAffinityTerm{TopologyKey: key, LabelSelector: self}}}}
			spec.TopologySpreadConstraints = []corev1.TopologySpreadConstraint{{TopologyKey: corev1.LabelTopologyZone, MaxSkew: 1, WhenUnsatisfiable: corev1.ScheduleAnyway, LabelSelector: self}}
		}
	}
	return spec, labels
}

func ensureAffinity(a *corev1.Affinity) *corev1.Affinity {
	if a == nil {
		return &corev1.Affinity{}
	}
	return a
}

func (p *provProfile) deploy() {
	ch := p.ch
	st := p.s.store
	p.nDep++
	spec, labels := p.genPodSpec()
	n := 1 + ch.Pick("prov.wave", 8)
	rs := fmt.Sprintf("rs-%d", p.nDep)
	for i := 0; i < n; i++ {
		p.nPod++
		pod := &corev1.Pod{ObjectMeta: metav1.ObjectMeta{Name: fmt.Sprintf("pod-%d", p.nPod), Namespace: "default", Labels: labels,
			OwnerReferences: []metav1.OwnerReference{{APIVersion: "apps/v1", Kind: "ReplicaSet", Name: rs, UID: types.UID(rs), Controller: ptr.To(true)}}},
			Spec: *spec.DeepCopy()}
		pod.Status.Phase = corev1.PodPending
		if p.d != nil && i == 0 {
			p.d.rsSpec[rs] = pod.DeepCopy()
		}
		must(st.Create(pod, nil))
	}
	if p.d != nil {
		p.d.rsDesired[rs] = n
	}
	p.note("deployment d%d: %d pods cpu=%s sel=%v", p.nDep, n, spec.Containers[0].Resources.Requests.Cpu(), spec.NodeSelector)
}

func (p *provProfile) op() {
	ch := p.ch
	st := p.s.store
	if p.disrupt && ch.Pick("dis.which", 3) != 0 {
		if p.disruptOp() {
			return
		}
	}
	switch ch.Pick("prov.op", 13) - 1 {
	case -1:
	case 0, 1, 2, 3, 4: // a deployment scales up: a wave of identical pods
		p.deploy()
	case 5: // scale down: delete some pods
		l := st.List(gvkPod)
		for i := 0; i < 1+ch.Pick("prov.del", 4) && len(l) > 0; i++ {
			o := l[ch.Pick("prov.pick", len(l))]
			if ownedBy(o.(*corev1.Pod), "DaemonSet") {
				continue
			}
			_ = st.Delete(o, DeleteOpts{Grace: ptr.To(int64(0))}, nil)
		}
		p.note("scale down")
	case 6: // non-drifting NodePool edit: weight / limits / budgets / requirements
		name := p.pools[ch.Pick("prov.pool", len(p.pools))]
		what := ch.Pick("prov.edit", 3)
		st.Mutate(gvkNodePool, types.NamespacedName{Name: name}, func(o client.Object) {
			np := o.(*v1.NodePool)
			switch what {
			case 0:
				np.Spec.Weight = ptr.To(int32(1 + ch.Pick("np.weight2", 100)))
			case 1:
				if !p.noLimits {
					np.Spec.Limits = v1.Limits{corev1.ResourceCPU: resource.MustParse(fmt.Sprint([]int{2, 8, 32, 100}[ch.Pick("np.cpulimit2", 4)]))}
					p.limitEdited[name] = p.s.step
				}
			case 2:
				np.Spec.Disruption.Budgets = []v1.Budget{{Nodes: fmt.Sprintf("%d%%", 10+ch.Pick("np.budget", 50))}}
			}
		})
		p.note("edit NodePool %s (non-drifting, what=%d)", name, what)
	case 7: // drifting NodePool edit: template label / taint / annotation
		name := p.pools[ch.Pick("prov.pool", len(p.pools))]
		replace := ch.Pick("prov.replace", 3) == 2
		st.Mutate(gvkNodePool, types.NamespacedName{Name: name}, func(o client.Object) {
			np := o.(*v1.NodePool)
			if np.Spec.Template.Annotations == nil {
				np.Spec.Template.Annotations = map[string]string{}
			}
			np.Spec.Template.Annotations["example.com/rev"] = fmt.Sprint(p.s.step)
			if replace {
				// kubectl replace / a GitOps "replace" sync: the object comes back without the annotations Karpenter maintains
				delete(np.Annotations, v1.NodePoolHashAnnotationKey)
				delete(np.Annotations, v1.NodePoolHashVersionAnnotationKey)
			}
		})
		p.driftEdit[name] = p.s.Now()
		p.note("edit NodePool %s (drifting: template annotation, replaced wholesale=%v)", name, replace)
		if ch.Pick("prov.editthendeploy", 2) == 1 {
			// a rollout usually follows the edit: new pods arrive while the hash controller may not have caught up yet
			p.deploy()
		}
	case 8: // user deletes a NodeClaim
		l := st.List(gvkNodeClaim)
		if len(l) > 0 {
			o := l[ch.Pick("prov.pick", len(l))]
			_ = st.Delete(o, DeleteOpts{}, nil)
			p.note("user deletes NodeClaim %s", o.GetName())
		}
	case 9: // an offering becomes unavailable / available again
		ti := ch.Pick("prov.it", len(p.e.CP.Catalog))
		oi := ch.Pick("prov.of", len(p.e.CP.Catalog[ti].Offerings))
		if p.e.CP.Catalog[ti].Offerings[oi].CapacityType() != v1.CapacityTypeReserved {
			it, of := p.e.CP.FlipOffering(ti, oi)
			p.s.Stat("fault.cp.offering.flip")
			p.note("offering %s/%s/%s available=%v", it.Name, of.Zone(), of.CapacityType(), of.Available)
		}
	case 10: // crash
		if p.s.FaultsOn && !p.s.Cfg.NoFaults && p.s.Knobs.FaultKinds["crash"] {
			p.note("crash")
			p.s.Crash()
		}
	case 11: // a DaemonSet's template shrinks (updateStrategy OnDelete: running daemon pods keep the old, larger requests)
		l := st.List(gvkDS)
		if len(l) > 0 {
			o := l[ch.Pick("prov.pick", len(l))]
			st.Mutate(gvkDS, keyOf(o), func(o client.Object) {
				ds := o.(*appsv1.DaemonSet)
				ds.Spec.Template.Spec.Containers[0].Resources.Requests = corev1.ResourceList{corev1.ResourceCPU: resource.MustParse("20m"), corev1.ResourceMemory: resource.MustParse("16Mi")}
			})
			p.note("daemonset %s template shrinks to cpu=20m (existing daemon pods keep their requests)", o.GetName())
		}
	}
}

// ---------- observation

func (p *provProfile) caughtUp() bool {
	s := p.s
	if !s.cache.CaughtUp("Node", "Pod", "NodeClaim", "DaemonSet", "NodePool", "PersistentVolumeClaim", "PersistentVolume", "StorageClass", "CSINode") {
		return false
	}
	for _, c := range s.Mgr.Ctrls {
		if !strings.HasPrefix(c.Name, "state.") || c.Name == "state.nodeclaimgc" {
			continue
		}
		if len(c.pending) > 0 || len(c.active) > 0 {
			return false
		}
		for _, t := range c.waiting {
			if t != nil && !t.dead && strings.HasPrefix(t.Name, "retry ") {
				return false
			}
		}
	}
	return true
}

// observe runs before every step: detect the snapshot moment of provisioning passes (the pass is
// parked at its provisionable-pod list, the first seam call after DeepCopyNodes()).
func (p *provProfile) observe() {
	s := p.s
	for _, c := range s.sortedParked() {
		if c.Task.Ctrl.Name != "provisioner" || c.Phase != 0 || c.Verb != "list" || c.Kind != "Pod" || !strings.Contains(c.Key, "spec.nodeName=") {
			continue
		}
		if _, ok := p.passes[c.Task.ID]; ok {
			continue
		}
		pi := &passInfo{task: c.Task, startStep: s.step, toNode: map[types.UID]string{}, toNew: map[types.UID]string{}, order: map[string][]types.UID{}, created: map[string]*v1.NodeClaim{}}
		pi.checked = p.caughtUp()
		st := s.store
		pi.evSeq = st.evSeq
		for _, o := range st.List(gvkNode) {
			pi.nodes = append(pi.nodes, o.(*corev1.Node))
		}
		for _, o := range st.List(gvkPod) {
			pi.pods = append(pi.pods, o.(*corev1.Pod))
		}
		for _, o := range st.List(gvkNodeClaim) {
			pi.ncs = append(pi.ncs, o.(*v1.NodeClaim))
		}
		for _, o := range st.List(gvkNodePool) {
			pi.pools = append(pi.pools, o.(*v1.NodePool))
		}
		for _, o := range st.List(gvkDS) {
			d := DaemonPod(o.(*appsv1.DaemonSet))
			d.Name = o.GetName()
			d.UID = types.UID("ds-" + o.GetName())
			pi.daemons = append(pi.daemons, d)
		}
		pi.sv = p.e.ServerStorage()
		p.passes[c.Task.ID] = pi
		s.Probe("pass")
		if pi.checked {
			s.Probe("pass-caught-up")
		}
		// C04 gate clause: no unlaunched, non-deleting NodeClaim that Karpenter knows of while a pass runs. It knows of
		// a NodeClaim whose creation was acknowledged to this incarnation, and of every NodeClaim its caches and state
		// controllers have caught up on (that covers NodeClaims created before a restart).
		for _, nc := range pi.ncs {
			if nc.Status.ProviderID != "" || nc.DeletionTimestamp != nil {
				continue
			}
			if inc, ok := p.ackedNC[nc.Name]; ok && inc == s.inc {
				s.Violate("C04", "pass-while-unlaunched", "a scheduling pass started while NodeClaim %s, whose creation was acknowledged to this incarnation, is neither launched nor deleting", nc.Name)
			} else if pi.checked && s.cache.Get(gvkNodeClaim, types.NamespacedName{Name: nc.Name}) != nil {
				s.Violate("C04", "pass-while-unlaunched", "a scheduling pass started while NodeClaim %s, which Karpenter's caches and cluster state had caught up on, is neither launched nor deleting", nc.Name)
			}
		}
	}
}


var nominatedTarget = func(msg string) (kind, name string) {
	// "Pod should schedule on: nodeclaim/x, node/y"
	i := strings.Index(msg, ": ")
	if i < 0 {
		return "", ""
	}
	parts := strings.Split(msg[i+2:], ", ")
	var nc, node string
	for _, part := range parts {
		if strings.HasPrefix(part, "nodeclaim/") {
			nc = strings.TrimPrefix(part, "nodeclaim/")
		}
		if strings.HasPrefix(part, "node/") {
			node = strings.TrimPrefix(part, "node/")
		}
	}
	if node != "" {
		return "node", node
	}
	return "nodeclaim", nc
}

func (p *provProfile) onEvent(re RecEvent) {
	if re.Ev.Reason != events.Nominated {
		return
	}
	if p.d != nil {
		if kind, name := nominatedTarget(re.Ev.Message); kind == "node" {
			p.d.nomEvents[name] = p.s.step
			p.d.nomTimes[name] = append(p.d.nomTimes[name], p.s.Now())
		}
	}
	if re.Task == nil {
		return
	}
	pi := p.passes[re.Task.ID]
	if pi == nil {
		return
	}
	pod, ok := re.Ev.InvolvedObject.(*corev1.Pod)
	if !ok {
		return
	}
	kind, name := nominatedTarget(re.Ev.Message)
	if name == "" {
		return
	}
	target := kind + "/" + name
	if kind == "nodeclaim" {
		if _, created := pi.created[name]; created {
			pi.toNew[pod.UID] = name
			pi.order[target] = append(pi.order[target], pod.UID)
			p.ncPods[name] = append(p.ncPods[name], pod.UID)
			return
		}
	}
	pi.toNode[pod.UID] = target
	pi.order[target] = append(pi.order[target], pod.UID)
}

func (p *provProfile) onWrite(ev WatchEvent, old client.Object, by *Task) {
	if ev.GVK == gvkNodeClaim && ev.Type == EvAdded && by != nil {
		if pi := p.passes[by.ID]; pi != nil {
			pi.created[ev.Obj.GetName()] = ev.Obj.(*v1.NodeClaim)
		}
		// C15: the NodePool template the creating task built this NodeClaim from (its last NodePool list)
		// (a task that listed NodePools several times - a disruption pass with its validation - and saw different
		// templates does not tell which one the NodeClaim was built from: not recorded)
		if np := lastNodePoolRead(by, ev.Obj.GetLabels()[v1.NodePoolLabelKey], true); np != nil && sameTemplateInAllLists(by, np) {
			p.ncTemplate[ev.Obj.GetName()] = templateJSON(np)
		}
	}
	if ev.GVK == gvkNodeClaim && ev.Type != EvDeleted && by != nil {
		nc := ev.Obj.(*v1.NodeClaim)
		if nc.StatusConditions().Get(v1.ConditionTypeDrifted).IsTrue() && (old == nil || !old.(*v1.NodeClaim).StatusConditions().Get(v1.ConditionTypeDrifted).IsTrue()) {
			p.checkDrifted(nc, by)
		}
	}
}

func (p *provProfile) onTaskDone(t *Task) {
	s := p.s
	if t.Panic != nil && (t.Ctrl.Name == "provisioner") {
		s.Violate("C01", "controller-crash", "provisioner panicked: %v\n%s", t.Panic, firstLines(t.PanicSt, 14))
	}
	delete(p.saltByTask, t.ID)
	if t.Ctrl.Name != "provisioner" {
		return
	}
	// acknowledged NodeClaim creates
	for _, w := range t.Writes {
		if w.Kind == "NodeClaim" && w.Verb == "create" && w.Err == nil && w.Obj != nil {
			p.ackedNC[w.Obj.(*v1.NodeClaim).Name] = t.Inc
		}
	}
	pi := p.passes[t.ID]
	delete(p.passes, t.ID)
	if pi == nil {
		return
	}
	if len(pi.toNode) == 0 && len(pi.toNew) == 0 {
		return
	}
	s.Probe("pass-with-placements")
	// the snapshot was taken when the pass parked at its pod list; a server write before the list executed makes the
	// pass's node snapshot older than its pod list: not a caught-up pass
	for _, r := range t.Reads {
		if r.Verb == "list" && r.Kind == "Pod" && strings.Contains(r.Key, "spec.nodeName=") && r.Step >= pi.startStep {
			if r.EvSeq != pi.evSeq && pi.checked {
				pi.checked = false
				s.Probe("pass-snapshot-stale")
			}
			break
		}
	}
	if !pi.checked {
		s.Probe("pass-unchecked")
		return
	}
	p.checkPass(pi)
}

// ---------- oracles on one caught-up pass

func findPod(pods []*corev1.Pod, uid types.UID) *corev1.Pod {
	for _, q := range pods {
		if q.UID == uid {
			return q
		}
	}
	return nil
}

// existingTargets builds model nodes for what the pass could have used as existing capacity.
func (p *provProfile) existingTargets(pi *passInfo) map[string]*ModelNode {
	out := map[string]*ModelNode{}
	bound := map[string][]*corev1.Pod{}
	for _, q := range pi.pods {
		if q.Spec.NodeName != "" && !podTerminal(q) {
			bound[q.Spec.NodeName] = append(bound[q.Spec.NodeName], q)
		}
	}
	ncByPID := map[string]*v1.NodeClaim{}
	for _, nc := range pi.ncs {
		if nc.Status.ProviderID != "" {
			ncByPID[nc.Status.ProviderID] = nc
		}
	}
	hasNode := map[string]bool{}
	for _, n := range pi.nodes {
		nc := ncByPID[n.Spec.ProviderID]
		hasNode[n.Spec.ProviderID] = true
		taints := n.Spec.Taints
		initialized := n.Labels[v1.NodeInitializedLabelKey] == "true"
		alloc := n.Status.Allocatable
		if nc != nil && !initialized {
			// R4: until initialized Karpenter ignores startup and known ephemeral taints, and takes
			// allocatable from the NodeClaim where the node does not report it yet
			var keep []corev1.Taint
			for i := range taints {
				t := taints[i]
				if scheduling.IsKnownEphemeralTaint(&t) {
					continue
				}
				startup := false
				for _, s := range nc.Spec.StartupTaints {
					if s.MatchTaint(&t) {
						startup = true
					}
				}
				if !startup {
					keep = append(keep, t)
				}
			}
			taints = keep
			merged := corev1.ResourceList{}
			for k, v := range nc.Status.Allocatable {
				merged[k] = v.DeepCopy()
			}
			for k, v := range alloc {
				if !v.IsZero() {
					merged[k] = v.DeepCopy()
				}
			}
			alloc = merged
		}
		mn := &ModelNode{Name: n.Name, Labels: n.Labels, Taints: taints, Allocatable: alloc, Pods: bound[n.Name], Meta: "node"}
		if nc != nil && n.Labels[v1.NodeRegisteredLabelKey] != "true" {
			// not registered: Karpenter reasons on the NodeClaim's labels and taints
			labels := map[string]string{}
			for k, v := range nc.Labels {
				labels[k] = v
			}
			for k, v := range n.Labels {
				if _, ok := labels[k]; !ok {
					labels[k] = v
				}
			}
			mn.Labels = labels
			mn.Taints = nc.Spec.Taints
		}
		out["node/"+n.Name] = mn
		if nc != nil {
			out["nodeclaim/"+nc.Name] = mn
		}
	}
	for _, nc := range pi.ncs {
		if nc.Status.ProviderID == "" || hasNode[nc.Status.ProviderID] {
			continue
		}
		labels := map[string]string{}
		for k, v := range nc.Labels {
			labels[k] = v
		}
		out["nodeclaim/"+nc.Name] = &ModelNode{Name: nc.Name, Labels: labels, Taints: nc.Spec.Taints, Allocatable: nc.Status.Allocatable, Meta: "in-flight"}
	}
	return out
}

func (p *provProfile) checkPass(pi *passInfo) {
	s := p.s
	targets := p.existingTargets(pi)
	if os.Getenv("VERIF_DEBUG_PASS") != "" {
		fmt.Fprintf(os.Stderr, "PASS step=%d task=%s\n", s.step, pi.task.Name())
		for k, v := range pi.order {
			var names []string
			for _, uid := range v {
				if q := findPod(pi.pods, uid); q != nil {
					b, _ := json.Marshal(q.Spec.Containers[0].Resources.Requests)
					names = append(names, q.Name+string(b))
					if os.Getenv("VERIF_DEBUG_PASS") == "2" {
						sb, _ := json.Marshal(q.Spec)
						fmt.Fprintf(os.Stderr, "  spec %s %s\n", q.Name, sb)
					}
				}
			}
			fmt.Fprintf(os.Stderr, "  placed %s <- %v\n", k, names)
		}
		for k, mn := range targets {
			var names []string
			for _, q := range mn.Pods {
				names = append(names, q.Name)
			}
			b, _ := json.Marshal(mn.Allocatable)
			fmt.Fprintf(os.Stderr, "  target %s meta=%s alloc=%s taints=%v pods=%v labels=%v\n", k, mn.Meta, b, mn.Taints, names, mn.Labels)
		}
	}
	// assigned[target] = pods placed there by this pass, in nomination order
	keys := make([]string, 0, len(pi.order))
	for k := range pi.order {
		keys = append(keys, k)
	}
	sort.Strings(keys)
	for _, target := range keys {
		if strings.HasPrefix(target, "nodeclaim/") {
			if _, isNew := pi.created[strings.TrimPrefix(target, "nodeclaim/")]; isNew {
				continue
			}
		}
		mn := targets[target]
		if mn == nil {
			s.Probe("c01-target-unknown")
			continue
		}
		// C01 (a): existing / in-flight node must admit every pod nominated to it next to what is there
		node := *mn
		node.Pods = append([]*corev1.Pod(nil), mn.Pods...)
		for _, uid := range pi.order[target] {
			pod := findPod(pi.pods, uid)
			if pod == nil {
				continue
			}
			s.Probe("c01-existing-placement")
			if why := Admit(pod, &node, pi.sv); why != "" {
				oracle := "existing-node-inadmissible"
				if k := contradictoryKeyMissingOn(pod, mn.Labels); k != "" {
					// a narrower class with its own name: the pod's own requirements on label k contradict each other (no
					// node can satisfy them) and the node does not carry k at all
					oracle = "existing-node-inadmissible/contradictory-requirement-on-absent-label"
					why += fmt.Sprintf(" (the pod's requirements on %s exclude every value; the node has no such label)", k)
				} else if k := p.topologyKeyAcquired(pi, target, pod, mn.Labels); k != "" {
					// follow-up of C02/node-without-topology-label: an earlier pod of the pass with a topology constraint on k
					// was placed on this node, which does not carry k; the simulated node then "has" a domain for k
					oracle = "existing-node-inadmissible/node-without-topology-label"
					why += fmt.Sprintf(" (the node has no %s label; a pod with a topology constraint on it was placed there earlier in the pass)", k)
				}
				nsel, _ := json.Marshal(pod.Spec.NodeSelector)
				var naff []byte
				if pod.Spec.Affinity != nil && pod.Spec.Affinity.NodeAffinity != nil {
					naff, _ = json.Marshal(pod.Spec.Affinity.NodeAffinity.RequiredDuringSchedulingIgnoredDuringExecution)
				}
				s.Violate("C01", oracle, "pod %s (nodeSelector %s, required node affinity %s) was placed on %s (%s) but Kubernetes would not admit it there: %s", pod.Name, nsel, naff, target, mn.Meta, why)
				return
			}
			node.Pods = append(node.Pods, pod)
		}
		mn.Pods = node.Pods // for C04: everything assigned by the end of the pass
	}
	p.checkInterPod(pi, targets)
	if len(s.Viol) > 0 {
		return
	}
	// C01 (b): every instance type named by each written NodeClaim has an offering that admits its pods
	names := make([]string, 0, len(pi.created))
	for n := range pi.created {
		names = append(names, n)
	}
	sort.Strings(names)
	for _, name := range names {
		nc := pi.created[name]
		var pods []*corev1.Pod
		for _, uid := range pi.order["nodeclaim/"+name] {
			if q := findPod(pi.pods, uid); q != nil {
				pods = append(pods, q)
			}
		}
		if len(pods) == 0 {
			continue
		}
		p.ncChecked[name] = true
		// the catalog this pass was given (instance types are immutable objects)
		its, _ := pi.task.Notes["its/"+nc.Labels[v1.NodePoolLabelKey]].([]*cloudprovider.InstanceType)
		if its == nil {
			its = p.e.CP.typesFor(nc.Labels[v1.NodePoolLabelKey])
		}
		for _, itName := range namedInstanceTypes(nc) {
			var it *cloudprovider.InstanceType
			for _, x := range its {
				if x.Name == itName {
					it = x
				}
			}
			if it == nil {
				continue
			}
			s.Probe("c01-new-type-checked")
			ofs := permittedOfferings(nc, it)
			if len(ofs) == 0 && ncAllows(nc, v1.CapacityTypeLabelKey, v1.CapacityTypeReserved) && !ncAllows(nc, v1.CapacityTypeLabelKey, v1.CapacityTypeOnDemand) && !ncAllows(nc, v1.CapacityTypeLabelKey, v1.CapacityTypeSpot) {
				// a NodeClaim pinned to a capacity reservation keeps the other instance types of its options in the list;
				// the provider cannot launch those (no offering matches the reservation), so they are not "types it may be
				// launched as"
				s.Probe("c01-reserved-pinned-type-skipped")
				continue
			}
			if len(ofs) == 0 {
				var ofs []string
				for _, of := range it.Offerings {
					ofs = append(ofs, fmt.Sprintf("%s/%s/%s avail=%v", of.Zone(), of.CapacityType(), of.ReservationID(), of.Available))
				}
				s.Violate("C01", "new-nodeclaim-type-without-offering", "NodeClaim %s names instance type %s, which has no available offering compatible with the written requirements %v (offerings: %v)", name, it.Name, nc.Spec.Requirements, ofs)
				return
			}
			var lastWhy string
			ok := false
			for _, of := range ofs {
				hn := HypotheticalNode(nc, it, of)
				hn.Pods = daemonPodsFor(hn, pi.daemons)
				why := ""
				for _, q := range pods {
					if w := Admit(q, hn, pi.sv); w != "" {
						why = fmt.Sprintf("pod %s on %s: %s", q.Name, hn.Meta, w)
						break
					}
					hn.Pods = append(hn.Pods, q)
				}
				if why == "" {
					ok = true
					break
				}
				lastWhy = why
			}
			if !ok {
				s.Violate("C01", "new-nodeclaim-inadmissible", "NodeClaim %s (%d pods) may be launched as %s, but no available compatible offering of that type admits its pods plus daemon overhead: %s", name, len(pods), it.Name, lastWhy)
				return
			}
		}
		p.checkTruncation(pi, nc, pods, its)
		if len(s.Viol) > 0 {
			return
		}
		// C04: a simple pod goes to a new NodeClaim only if nothing existing admits it
		for _, q := range pods {
			if !podIsSimple(q) {
				continue
			}
			// "neither carries nor is targeted by inter-pod constraints": another pod's anti-affinity term (required,
			// or preferred and not yet relaxed) that selects q restricts where q may go
			if targetedByAntiAffinity(q, pi.pods, p.namespaces()) {
				s.Probe("c04-pod-targeted-by-anti-affinity")
				continue
			}
			s.Probe("c04-simple-pod-on-new")
			tkeys := make([]string, 0, len(targets))
			for k := range targets {
				tkeys = append(tkeys, k)
			}
			sort.Strings(tkeys)
			seen := map[*ModelNode]bool{}
			for _, k := range tkeys {
				mn := targets[k]
				if seen[mn] {
					continue
				}
				seen[mn] = true
				if !p.usableCapacity(pi, k, mn) {
					continue
				}
				// every daemonset that could still land there counts against the node
				probe := *mn
				probe.Pods = append(append([]*corev1.Pod(nil), mn.Pods...), heaviestDaemons(missingDaemons(mn, pi.daemons), pi.pods)...)
				if Admit(q, &probe, pi.sv) == "" {
					s.Violate("C04", "new-capacity-although-existing-fits", "pod %s was put on new NodeClaim %s although existing capacity %s (%s) admits it next to everything assigned there by the end of the pass", q.Name, name, k, mn.Meta)
					return
				}
			}
		}
		// C19: the opener of the NodeClaim could not have used a higher-weight pool
		p.checkWeight(pi, nc, pods[0])
	}
}

// missingDaemons: daemonsets that match the node but have no pod there yet.
// targetedByAntiAffinity: some other live pod carries an anti-affinity term whose selector matches q.
func targetedByAntiAffinity(q *corev1.Pod, pods []*corev1.Pod, nss nsView) bool {
	for _, o := range pods {
		if o.UID == q.UID || podTerminal(o) || o.Spec.Affinity == nil || o.Spec.Affinity.PodAntiAffinity == nil {
			continue
		}
		terms := append([]corev1.PodAffinityTerm(nil), o.Spec.Affinity.PodAntiAffinity.RequiredDuringSchedulingIgnoredDuringExecution...)
		for _, w := range o.Spec.Affinity.PodAntiAffinity.PreferredDuringSchedulingIgnoredDuringExecution {
			terms = append(terms, w.PodAffinityTerm)
		}
		for _, t := range terms {
			if termMatches(o, t, q, nss) {
				return true
			}
		}
	}
	return false
}

// contradictoryKeyMissingOn: a label key the node does not carry, which the pod's nodeSelector pins to a value that
// some required or preferred node-affinity term excludes again (In without it, NotIn with it, DoesNotExist).
func contradictoryKeyMissingOn(pod *corev1.Pod, labels map[string]string) string {
	a := pod.Spec.Affinity
	if a == nil || a.NodeAffinity == nil {
		return ""
	}
	// required terms and preferred ones alike: until relaxed, Karpenter folds the heaviest preference into the requirements
	var terms []corev1.NodeSelectorTerm
	if r := a.NodeAffinity.RequiredDuringSchedulingIgnoredDuringExecution; r != nil {
		terms = append(terms, r.NodeSelectorTerms...)
	}
	for _, pt := range a.NodeAffinity.PreferredDuringSchedulingIgnoredDuringExecution {
		terms = append(terms, pt.Preference)
	}
	keys := make([]string, 0, len(pod.Spec.NodeSelector))
	for k := range pod.Spec.NodeSelector {
		keys = append(keys, k)
	}
	sort.Strings(keys)
	for _, k := range keys {
		v := pod.Spec.NodeSelector[k]
		if _, has := labels[k]; has || len(terms) == 0 {
			continue
		}
		// Karpenter works on one OR-ed term at a time (the first, then the next after relaxation): one excluding term is enough
		any := false
		for _, t := range terms {
			excluded := false
			for _, e := range t.MatchExpressions {
				if e.Key != k {
					continue
				}
				in := false
				for _, x := range e.Values {
					if x == v {
						in = true
					}
				}
				switch e.Operator {
				case corev1.NodeSelectorOpIn:
					excluded = excluded || !in
				case corev1.NodeSelectorOpNotIn:
					excluded = excluded || in
				case corev1.NodeSelectorOpDoesNotExist:
					excluded = true
				}
			}
			if excluded {
				any = true
			}
		}
		if any {
			return k
		}
	}
	return ""
}

// topologyKeyAcquired: a key the pod's nodeSelector or required node affinity needs, the node lacks, and some pod assigned to the same node in this
// pass constrains as a topology key (pod (anti-)affinity or topology spread, required or preferred).
func (p *provProfile) topologyKeyAcquired(pi *passInfo, target string, pod *corev1.Pod, labels map[string]string) string {
	need := map[string]bool{}
	for k := range pod.Spec.NodeSelector {
		need[k] = true
	}
	if a := pod.Spec.Affinity; a != nil && a.NodeAffinity != nil && a.NodeAffinity.RequiredDuringSchedulingIgnoredDuringExecution != nil {
		for _, nt := range a.NodeAffinity.RequiredDuringSchedulingIgnoredDuringExecution.NodeSelectorTerms {
			for _, e := range nt.MatchExpressions {
				if e.Operator != corev1.NodeSelectorOpNotIn && e.Operator != corev1.NodeSelectorOpDoesNotExist {
					need[e.Key] = true
				}
			}
		}
	}
	keys := make([]string, 0, len(need))
	for k := range need {
		if _, has := labels[k]; !has {
			keys = append(keys, k)
		}
	}
	sort.Strings(keys)
	for _, k := range keys {
		for _, uid := range pi.order[target] {
			q := findPod(pi.pods, uid)
			if q == nil || q.UID == pod.UID {
				continue
			}
			// required and preferred alike (until relaxed, Karpenter enforces preferences and ScheduleAnyway spreads too)
			terms := append(requiredAffTerms(q), requiredAntiTerms(q)...)
			if a := q.Spec.Affinity; a != nil {
				if a.PodAffinity != nil {
					for _, w := range a.PodAffinity.PreferredDuringSchedulingIgnoredDuringExecution {
						terms = append(terms, w.PodAffinityTerm)
					}
				}
				if a.PodAntiAffinity != nil {
					for _, w := range a.PodAntiAffinity.PreferredDuringSchedulingIgnoredDuringExecution {
						terms = append(terms, w.PodAffinityTerm)
					}
				}
			}
			for _, t := range terms {
				if t.TopologyKey == k {
					return k
				}
			}
			for _, c := range q.Spec.TopologySpreadConstraints {
				if c.TopologyKey == k {
					return k
				}
			}
			// a node-affinity expression on k (e.g. NotIn) is merged into the simulated node's requirements as well
			if a := q.Spec.Affinity; a != nil && a.NodeAffinity != nil {
				var nts []corev1.NodeSelectorTerm
				if r := a.NodeAffinity.RequiredDuringSchedulingIgnoredDuringExecution; r != nil {
					nts = append(nts, r.NodeSelectorTerms...)
				}
				for _, pt := range a.NodeAffinity.PreferredDuringSchedulingIgnoredDuringExecution {
					nts = append(nts, pt.Preference)
				}
				for _, nt := range nts {
					for _, e := range nt.MatchExpressions {
						if e.Key == k {
							return k
						}
					}
				}
			}
		}
	}
	return ""
}

// heaviestDaemons: a daemonset that could still land counts with the larger of its template's requests and those of
// any of its running pods (Karpenter estimates the overhead from a running daemon pod; after a template change with
// updateStrategy OnDelete the two differ, and either is a defensible estimate - rule R4).
func heaviestDaemons(daemons []*corev1.Pod, pods []*corev1.Pod) []*corev1.Pod {
	out := make([]*corev1.Pod, 0, len(daemons))
	for _, d := range daemons {
		max := podRequests(d)
		for _, q := range pods {
			owned := false
			for _, o := range q.OwnerReferences {
				if o.Kind == "DaemonSet" && o.Name == d.Name {
					owned = true
				}
			}
			if !owned || podTerminal(q) {
				continue
			}
			for k, v := range podRequests(q) {
				if cur, ok := max[k]; !ok || v.Cmp(cur) > 0 {
					max[k] = v.DeepCopy()
				}
			}
		}
		c := d.DeepCopy()
		delete(max, corev1.ResourcePods)
		c.Spec.InitContainers = nil
		c.Spec.Overhead = nil
		c.Spec.Containers = []corev1.Container{{Name: "c", Image: "x", Ports: d.Spec.Containers[0].Ports, Resources: corev1.ResourceRequirements{Requests: max}}}
		out = append(out, c)
	}
	return out
}

func missingDaemons(mn *ModelNode, daemons []*corev1.Pod) []*corev1.Pod {
	var out []*corev1.Pod
	for _, d := range daemonPodsFor(&ModelNode{Name: mn.Name, Labels: mn.Labels}, daemons) {
		have := false
		for _, q := range mn.Pods {
			for _, o := range q.OwnerReferences {
				if o.Kind == "DaemonSet" && o.Name == d.Name {
					have = true
				}
			}
		}
		if !have {
			out = append(out, d)
		}
	}
	return out
}

// usableCapacity: capacity the provisioner is expected to consider: managed or unmanaged node that
// is not deleting / marked, and for in-flight NodeClaims launched and not deleting.
func (p *provProfile) usableCapacity(pi *passInfo, key string, mn *ModelNode) bool {
	for _, n := range pi.nodes {
		if "node/"+n.Name == key || mn.Name == n.Name {
			if n.DeletionTimestamp != nil {
				return false
			}
			for _, t := range n.Spec.Taints {
				if t.Key == v1.DisruptedTaintKey {
					return false
				}
			}
			// an unmanaged node that is not ready or cordoned is not capacity Karpenter must count
			if n.Spec.Unschedulable {
				return false
			}
		}
	}
	pidOfNode := ""
	for _, n := range pi.nodes {
		if n.Name == mn.Name {
			pidOfNode = n.Spec.ProviderID
		}
	}
	for _, nc := range pi.ncs {
		if "nodeclaim/"+nc.Name == key || mn.Name == nc.Name || (pidOfNode != "" && nc.Status.ProviderID == pidOfNode) {
			if nc.DeletionTimestamp != nil || nc.StatusConditions().Get(v1.ConditionTypeInstanceTerminating).IsTrue() {
				return false
			}
			for _, n := range pi.nodes {
				if n.Spec.ProviderID == nc.Status.ProviderID && n.DeletionTimestamp != nil {
					return false
				}
			}
		}
	}
	return true
}

func poolReady(np *v1.NodePool) bool {
	return np.StatusConditions().Root().IsTrue() && np.DeletionTimestamp == nil && np.Spec.Replicas == nil
}

// checkTruncation: C19, second sentence. When the written instance-type list has exactly the truncation limit's
// length, no type left out may be cheaper (by its cheapest available offering the written requirements permit) than the
// dearest type kept, if it could host the NodeClaim's pods. "Could host" is judged conservatively: all pods simple, every
// daemonset counted whether or not it would land there, pools with minValues skipped.
func (p *provProfile) checkTruncation(pi *passInfo, nc *v1.NodeClaim, pods []*corev1.Pod, its []*cloudprovider.InstanceType) {
	s := p.s
	named := namedInstanceTypes(nc)
	if len(named) == 0 || len(named) < provscheduling.MaxInstanceTypes {
		return
	}
	nss := p.namespaces()
	for _, q := range pods {
		if !podIsSimple(q) || targetedByAntiAffinity(q, pi.pods, nss) {
			return
		}
	}
	poolReqs := &v1.NodeClaim{}
	for _, np := range pi.pools {
		if np.Name != nc.Labels[v1.NodePoolLabelKey] {
			continue
		}
		for _, r := range np.Spec.Template.Spec.Requirements {
			if r.MinValues != nil {
				return
			}
		}
		// a pool with resource limits excludes the types that would breach what is left of them
		if len(np.Spec.Limits) > 0 {
			return
		}
		// the pool's own requirements (they may exclude instance types by name) apply to every candidate type
		poolReqs.Spec.Requirements = np.Spec.Template.Spec.Requirements
	}
	// the NodeClaim without its instance-type requirement
	open := nc.DeepCopy()
	open.Spec.Requirements = nil
	for _, r := range nc.Spec.Requirements {
		if r.Key != corev1.LabelInstanceTypeStable {
			open.Spec.Requirements = append(open.Spec.Requirements, r)
		}
	}
	price := func(it *cloudprovider.InstanceType) (float64, bool) {
		best, ok := 0.0, false
		for _, of := range permittedOfferings(open, it) {
			if of.CapacityType() == v1.CapacityTypeReserved {
				return 0, false
			}
			if !ok || of.Price < best {
				best, ok = of.Price, true
			}
		}
		return best, ok
	}
	isNamed := map[string]bool{}
	dearest, dearestName := 0.0, ""
	for _, n := range named {
		isNamed[n] = true
		for _, it := range its {
			if it.Name == n {
				pr, ok := price(it)
				if !ok {
					return
				}
				if pr > dearest {
					dearest, dearestName = pr, n
				}
			}
		}
	}
	s.Probe("c19-truncated-nodeclaim-examined")
	itKeys := map[string]bool{}
	for _, it := range its {
		for key := range it.Requirements {
			itKeys[key] = true
		}
	}
	if os.Getenv("VERIF_DEBUG_PASS") != "" {
		fmt.Fprintf(os.Stderr, "TRUNC nc=%s reqs=%v\n", nc.Name, nc.Spec.Requirements)
		for _, it := range its {
			var ofs []string
			for _, of := range it.Offerings {
				ofs = append(ofs, fmt.Sprintf("%s/%s=%.3f avail=%v", of.Zone(), of.CapacityType(), of.Price, of.Available))
			}
			pr, ok := price(it)
			fmt.Fprintf(os.Stderr, "  type %s named=%v price=%.3f ok=%v cap=%v offerings=%v\n", it.Name, isNamed[it.Name], pr, ok, it.Capacity.Cpu(), ofs)
		}
	}
	for _, u := range its {
		if isNamed[u.Name] {
			continue
		}
		pu, ok := price(u)
		if !ok || !(pu < dearest) {
			continue
		}
		compatible := ncAllows(poolReqs, corev1.LabelInstanceTypeStable, u.Name)
		// every requirement of the pool and of the written NodeClaim on a key that instance types define (also Exists /
		// DoesNotExist on a key this type does not carry); a multi-valued key on the type is not judged (skip the type)
		for _, reqs := range [][]v1.NodeSelectorRequirementWithMinValues{poolReqs.Spec.Requirements, open.Spec.Requirements} {
			for _, r := range reqs {
				if r.Key == corev1.LabelInstanceTypeStable || !itKeys[r.Key] {
					continue
				}
				val := ""
				if req, ok := u.Requirements[r.Key]; ok {
					if req.Operator() != corev1.NodeSelectorOpIn || req.Len() != 1 {
						compatible = false
						continue
					}
					val = req.Values()[0]
				}
				one := &v1.NodeClaim{}
				one.Spec.Requirements = []v1.NodeSelectorRequirementWithMinValues{r}
				if !ncAllows(one, r.Key, val) {
					compatible = false
				}
			}
		}
		if !compatible {
			continue
		}
		for _, of := range permittedOfferings(open, u) {
			hn := HypotheticalNode(open, u, of)
			hn.Pods = heaviestDaemons(pi.daemons, pi.pods)
			fits := true
			for _, q := range pods {
				if Admit(q, hn, pi.sv) != "" {
					fits = false
					break
				}
				hn.Pods = append(hn.Pods, q)
			}
			if fits {
				s.Violate("C19", "truncation-dropped-cheaper-type", "NodeClaim %s names %d instance types (the truncation limit); the dearest kept, %s, costs %.5f at its cheapest permitted available offering, but %s at %.5f (%s/%s) hosts the same %d pods with every daemonset counted and was left out", nc.Name, len(named), dearestName, dearest, u.Name, pu, of.Zone(), of.CapacityType(), len(pods))
				return
			}
		}
	}
}

func (p *provProfile) checkWeight(pi *passInfo, nc *v1.NodeClaim, opener *corev1.Pod) {
	s := p.s
	if !p.noLimits || !podIsSimple(opener) {
		return
	}
	// the pools (weights, readiness, requirements) as the pass itself listed them (read-set rule), not as they were when
	// the pass took its node snapshot a few calls earlier
	pools := pi.pools
	for i := len(pi.task.Reads) - 1; i >= 0; i-- {
		if r := pi.task.Reads[i]; r.Kind == "NodePool" && r.Verb == "list" && r.Err == nil && r.Step >= pi.startStep {
			pools = nil
			for _, o := range r.Objs {
				if np, ok := o.(*v1.NodePool); ok {
					pools = append(pools, np)
				}
			}
			break
		}
	}
	var mine *v1.NodePool
	for _, np := range pools {
		if np.Name == nc.Labels[v1.NodePoolLabelKey] {
			mine = np
		}
	}
	if mine == nil {
		return
	}
	for _, np := range pools {
		if np.Name == mine.Name || !poolReady(np) || ptr.Deref(np.Spec.Weight, 0) <= ptr.Deref(mine.Spec.Weight, 0) {
			continue
		}
		for _, r := range np.Spec.Template.Spec.Requirements {
			if r.MinValues != nil {
				return
			}
		}
		s.Probe("c19-higher-pool-examined")
		if it, of := p.poolFeasible(np, opener, pi); it != "" {
			s.Violate("C19", "lower-weight-pool-used", "pod %s opened NodeClaim %s in pool %s (weight %d) although pool %s (weight %d) can host it, e.g. as %s in %s", opener.Name, nc.Name, mine.Name, ptr.Deref(mine.Spec.Weight, 0), np.Name, ptr.Deref(np.Spec.Weight, 0), it, of)
			return
		}
	}
}

// poolFeasible: some type of the pool's catalog, compatible with the pool's requirements, with an
// available offering, admits the pod alone plus EVERY daemonset that could land there.
func (p *provProfile) poolFeasible(np *v1.NodePool, pod *corev1.Pod, pi *passInfo) (string, string) {
	tmpl := &v1.NodeClaim{}
	tmpl.Name = "probe"
	tmpl.Labels = map[string]string{v1.NodePoolLabelKey: np.Name}
	for k, v := range np.Spec.Template.Labels {
		tmpl.Labels[k] = v
	}
	tmpl.Spec.Taints = np.Spec.Template.Spec.Taints
	tmpl.Spec.Requirements = np.Spec.Template.Spec.Requirements
	for _, it := range p.e.CP.typesFor(np.Name) {
		// instance-type level requirements of the pool
		ok := true
		for key, req := range it.Requirements {
			if req.Operator() == corev1.NodeSelectorOpIn && req.Len() == 1 {
				if !ncAllows(tmpl, key, req.Values()[0]) {
					ok = false
				}
			}
		}
		if !ok {
			continue
		}
		for _, of := range permittedOfferings(tmpl, it) {
			if of.CapacityType() == v1.CapacityTypeReserved {
				continue
			}
			// custom label requirements of the pool become concrete labels; try each admissible value
			for _, labels := range customLabelChoices(np) {
				hn := HypotheticalNode(tmpl, it, of)
				for k, v := range labels {
					hn.Labels[k] = v
				}
				hn.Pods = heaviestDaemons(daemonPodsFor(&ModelNode{Labels: hn.Labels}, pi.daemons), pi.pods)
				if Admit(pod, hn, pi.sv) == "" {
					return it.Name, of.Zone() + "/" + of.CapacityType()
				}
			}
		}
	}
	return "", ""
}

func customLabelChoices(np *v1.NodePool) []map[string]string {
	out := []map[string]string{{}}
	for _, r := range np.Spec.Template.Spec.Requirements {
		if r.Key != customKey {
			continue
		}
		switch r.Operator {
		case corev1.NodeSelectorOpIn:
			var next []map[string]string
			for _, v := range r.Values {
				next = append(next, map[string]string{customKey: v})
			}
			return next
		case corev1.NodeSelectorOpExists:
			// any value the pod asks for is possible; resolved by the caller's pod selector
			return []map[string]string{{customKey: "a"}, {customKey: "b"}, {customKey: "c"}}
		}
	}
	return out
}

// ---------- provider-side checks: the node actually launched must admit the planned pods (C01),
// limits (C03) and no self-inflicted drift (C15)

func (p *provProfile) onProviderCreate(t *Task, nc *v1.NodeClaim, inst *Instance, err error, fault FaultKind) {
	s := p.s
	if inst == nil {
		return
	}
	s.Probe("launch")
	if p.ncChecked[nc.Name] {
		srv := s.store.Get(gvkNodeClaim, types.NamespacedName{Name: nc.Name})
		if srv != nil {
			hn := HypotheticalNode(srv.(*v1.NodeClaim), inst.Type, inst.Offering)
			var daemons []*corev1.Pod
			for _, o := range s.store.List(gvkDS) {
				d := DaemonPod(o.(*appsv1.DaemonSet))
				d.Name = o.GetName()
				d.UID = types.UID("ds-" + o.GetName())
				daemons = append(daemons, d)
			}
			hn.Pods = daemonPodsFor(hn, daemons)
			sv := p.e.ServerStorage()
			for _, uid := range p.ncPods[nc.Name] {
				var pod *corev1.Pod
				for _, o := range s.store.List(gvkPod) {
					if o.GetUID() == uid {
						pod = o.(*corev1.Pod)
					}
				}
				if pod == nil || pod.Spec.NodeName != "" {
					continue
				}
				s.Probe("c01-launched-node-checked")
				if why := Admit(pod, hn, sv); why != "" {
					s.Violate("C01", "launched-node-inadmissible", "NodeClaim %s was launched as %s, a choice its written requirements permit, but the pods it was created for do not fit: pod %s: %s", nc.Name, hn.Meta, pod.Name, why)
					return
				}
				hn.Pods = append(hn.Pods, pod)
			}
		}
	}
	p.checkLimits("launch of " + nc.Name)
}

// checkLimits: C03 dynamic clause on provider truth.
func (p *provProfile) checkLimits(when string) {
	s := p.s
	st := s.store
	for _, o := range st.List(gvkNodePool) {
		np := o.(*v1.NodePool)
		if len(np.Spec.Limits) == 0 || np.Spec.Replicas != nil {
			continue
		}
		if step, ok := p.limitEdited[np.Name]; ok && step > 0 {
			continue // the user changed the limits during the run: skipped (DESIGN 6/C03)
		}
		total := corev1.ResourceList{}
		n := 0
		for _, no := range st.List(gvkNodeClaim) {
			nc := no.(*v1.NodeClaim)
			if nc.Labels[v1.NodePoolLabelKey] != np.Name || nc.DeletionTimestamp != nil {
				continue
			}
			inst := p.e.CP.Instances[nc.Status.ProviderID]
			if inst == nil {
				// launched but not yet recorded: find by UID
				for _, id := range p.e.CP.Order {
					if x := p.e.CP.Instances[id]; x.UID == nc.UID && !x.Gone && x.AckedCreate {
						inst = x
					}
				}
			}
			if inst == nil || inst.Gone {
				continue
			}
			total = addRL(total, inst.Capacity)
			n++
		}
		for r, lim := range np.Spec.Limits {
			if got := total[r]; got.Cmp(lim) > 0 {
				if p.d != nil && p.poolHadDisruptionCandidate(np.Name) {
					// capacity launched for the pods of a node that was marked for disruption, and the command was then rolled back
					s.Violate("C03", "limit-exceeded-with-disruption-candidate", "%s: NodePool %s has %d non-deleting nodes with total %s=%s, above its limit %s; one of them is or was a candidate of a disruption command (marked nodes do not count against the limit, a rolled-back command returns them)", when, np.Name, n, r, got.String(), lim.String())
					return
				}
				s.Violate("C03", "limit-exceeded", "%s: NodePool %s has %d non-deleting nodes with total %s=%s, above its limit %s", when, np.Name, n, r, got.String(), lim.String())
				return
			}
		}
		s.Probe("c03-limit-checked")
	}
}

func (p *provProfile) poolHadDisruptionCandidate(pool string) bool {
	for _, ci := range p.d.cmdList {
		for _, c := range ci.cands {
			if c.pool != pool {
				continue
			}
			if o := p.s.store.Get(gvkNodeClaim, types.NamespacedName{Name: c.nodeClaim}); o != nil && o.GetDeletionTimestamp() == nil {
				return true
			}
		}
	}
	return false
}

func (p *provProfile) checkDrifted(nc *v1.NodeClaim, by *Task) {
	s := p.s
	pool := nc.Labels[v1.NodePoolLabelKey]
	s.Probe("drifted")
	if _, ok := p.ackedNC[nc.Name]; !ok && !strings.HasPrefix(nc.Name, "pool-") {
		return
	}
	c := nc.StatusConditions().Get(v1.ConditionTypeDrifted)
	if _, edited := p.driftEdit[pool]; !edited {
		// requirement drift after a user edit of requirements is not generated here; offerings can flip,
		// which never drifts a node
		s.Violate("C15", "self-inflicted-drift", "NodeClaim %s, created by Karpenter from NodePool %s whose template only saw non-drifting edits, was marked Drifted (%s: %s)", nc.Name, pool, c.Reason, c.Message)
		return
	}
	// the template was edited at some point: the NodeClaim is still fresh with respect to the NodePool version the
	// marking task read if that version's template equals the one the NodeClaim was created from
	s.Probe("drifted-after-drifting-edit")
	created, ok := p.ncTemplate[nc.Name]
	np := lastNodePoolRead(by, pool, false)
	if !ok || np == nil || created != templateJSON(np) {
		return
	}
	s.Probe("drifted-although-template-equal")
	// was the NodePool's hash annotation already re-stamped after the last drifting edit when the marking task read it?
	// (only to name the history precisely: either way the NodeClaim is fresh and reported Drifted)
	if np.Annotations[v1.NodePoolHashAnnotationKey] != np.Hash() {
		s.Violate("C15", "self-inflicted-drift/hash-annotation-not-yet-restamped", "NodeClaim %s was created from the current template of NodePool %s and was marked Drifted (%s) while the NodePool's hash annotation still described the template before the last edit", nc.Name, pool, c.Reason)
		return
	}
	s.Violate("C15", "self-inflicted-drift", "NodeClaim %s was created from the very template NodePool %s has now (hash annotation up to date), yet it was marked Drifted (%s: %s)", nc.Name, pool, c.Reason, c.Message)
}

// checkDriftReported: C15, positive clause, at the end of a run whose quiet tail completed: a launched NodeClaim that
// was created from a template different from the one its NodePool has now is reported Drifted.
func (p *provProfile) checkDriftReported() {
	s := p.s
	if !p.tailOK {
		return
	}
	for _, o := range s.store.List(gvkNodeClaim) {
		nc := o.(*v1.NodeClaim)
		created, ok := p.ncTemplate[nc.Name]
		if !ok || nc.Status.ProviderID == "" || nc.DeletionTimestamp != nil || !nc.StatusConditions().Get(v1.ConditionTypeLaunched).IsTrue() {
			continue
		}
		npo := s.store.Get(gvkNodePool, types.NamespacedName{Name: nc.Labels[v1.NodePoolLabelKey]})
		if npo == nil || npo.GetDeletionTimestamp() != nil {
			continue
		}
		if created == templateJSON(npo.(*v1.NodePool)) {
			continue
		}
		s.Probe("c15-stale-nodeclaim-at-end")
		if !nc.StatusConditions().Get(v1.ConditionTypeDrifted).IsTrue() {
			s.Violate("C15", "drift-not-reported", "NodeClaim %s was created from an older template of NodePool %s (a drift-relevant field differs) and is still not reported Drifted long after faults stopped (hash annotation of the NodeClaim %q, of the NodePool %q)", nc.Name, npo.GetName(), nc.Annotations[v1.NodePoolHashAnnotationKey], npo.GetAnnotations()[v1.NodePoolHashAnnotationKey])
		}
	}
}

// lastNodePoolRead: the NodePool version a task last read (from a list if list is set, else from any read).
func lastNodePoolRead(t *Task, pool string, list bool) *v1.NodePool {
	if t == nil {
		return nil
	}
	for i := len(t.Reads) - 1; i >= 0; i-- {
		r := t.Reads[i]
		if r.Kind != "NodePool" || r.Err != nil || (list && r.Verb != "list") {
			continue
		}
		for _, o := range r.Objs {
			if np, ok := o.(*v1.NodePool); ok && np.Name == pool {
				return np
			}
		}
	}
	return nil
}

func sameTemplateInAllLists(t *Task, np *v1.NodePool) bool {
	want := templateJSON(np)
	for _, r := range t.Reads {
		if r.Kind != "NodePool" || r.Err != nil {
			continue
		}
		for _, o := range r.Objs {
			if x, ok := o.(*v1.NodePool); ok && x.Name == np.Name && templateJSON(x) != want {
				return false
			}
		}
	}
	return true
}

func templateJSON(np *v1.NodePool) string {
	b, _ := json.Marshal(np.Spec.Template)
	return string(b)
}

func (p *provProfile) finalChecks() {
	p.checkLimits("end of run")
	p.checkDriftReported()
	if p.disrupt {
		p.disruptFinal()
	}
}

func (p *provProfile) namespaces() nsView {
	out := nsView{}
	for _, o := range p.s.store.List(gvkNS) {
		out[o.GetName()] = o.GetLabels()
	}
	return out
}

// ncDomains: every domain a written NodeClaim could end up in for the key.
func (p *provProfile) ncDomains(pi *passInfo, nc *v1.NodeClaim) func(string) []string {
	its, _ := pi.task.Notes["its/"+nc.Labels[v1.NodePoolLabelKey]].([]*cloudprovider.InstanceType)
	if its == nil {
		its = p.e.CP.typesFor(nc.Labels[v1.NodePoolLabelKey])
	}
	return func(key string) []string {
		if key == corev1.LabelHostname {
			return []string{"new-" + nc.Name}
		}
		if v, ok := nc.Labels[key]; ok {
			return []string{v}
		}
		if key == corev1.LabelTopologyZone || key == v1.CapacityTypeLabelKey {
			set := map[string]bool{}
			for _, name := range namedInstanceTypes(nc) {
				for _, it := range its {
					if it.Name != name {
						continue
					}
					for _, of := range permittedOfferings(nc, it) {
						if key == corev1.LabelTopologyZone {
							set[of.Zone()] = true
						} else {
							set[of.CapacityType()] = true
						}
					}
				}
			}
			var out []string
			for z := range set {
				out = append(out, z)
			}
			sort.Strings(out)
			return out
		}
		for _, r := range nc.Spec.Requirements {
			if r.Key == key && r.Operator == corev1.NodeSelectorOpIn {
				return r.Values
			}
		}
		return nil
	}
}

// checkInterPod: C02 on the final plan of a caught-up pass.
func (p *provProfile) checkInterPod(pi *passInfo, targets map[string]*ModelNode) {
	s := p.s
	placedUID := map[types.UID]bool{}
	var all []*Placed
	relevant := false
	add := func(uid types.UID, target string, mn *ModelNode, dom func(string) []string) {
		pod := findPod(pi.pods, uid)
		if pod == nil {
			return
		}
		placedUID[uid] = true
		if len(requiredAntiTerms(pod)) > 0 || len(requiredAffTerms(pod)) > 0 || len(pod.Spec.TopologySpreadConstraints) > 0 {
			relevant = true
		}
		all = append(all, &Placed{Pod: pod, Target: target, New: true, Node: mn, Domains: dom})
		if os.Getenv("VERIF_DEBUG_C02") != "" {
			b, _ := json.Marshal(pod.Spec)
			fmt.Fprintf(os.Stderr, "DBG placed %s labels=%v on %s spec=%s\n", pod.Name, pod.Labels, target, b)
		}
	}
	tkeys := make([]string, 0, len(pi.order))
	for k := range pi.order {
		tkeys = append(tkeys, k)
	}
	sort.Strings(tkeys)
	for _, target := range tkeys {
		name := strings.TrimPrefix(target, "nodeclaim/")
		if nc, isNew := pi.created[name]; isNew && strings.HasPrefix(target, "nodeclaim/") {
			dom := p.ncDomains(pi, nc)
			if os.Getenv("VERIF_DEBUG_C02") != "" {
				fmt.Fprintf(os.Stderr, "DBG new nodeclaim %s reqs=%v zoneDomains=%v pods=%v\n", nc.Name, nc.Spec.Requirements, dom(corev1.LabelTopologyZone), pi.order[target])
			}
			// labels the new node will certainly carry: the NodeClaim's labels plus every single-valued requirement;
			// keys that are still undetermined stay absent, which can only make a node ineligible (conservative)
			hl := map[string]string{}
			for k, v := range nc.Labels {
				hl[k] = v
			}
			for _, r := range nc.Spec.Requirements {
				if r.Operator == corev1.NodeSelectorOpIn && len(r.Values) == 1 {
					hl[r.Key] = r.Values[0]
				}
			}
			hn := &ModelNode{Name: "new-" + nc.Name, Labels: hl, Taints: nc.Spec.Taints}
			for _, uid := range pi.order[target] {
				add(uid, target, hn, dom)
			}
			continue
		}
		mn := targets[target]
		if mn == nil {
			continue
		}
		for _, uid := range pi.order[target] {
			add(uid, target, mn, labelDomains(withHostname(mn)))
		}
	}
	if len(all) == 0 {
		return
	}
	// pods already bound (not being moved by this pass), on nodes that are not deleting
	byName := map[string]*ModelNode{}
	for k, mn := range targets {
		if strings.HasPrefix(k, "node/") {
			byName[strings.TrimPrefix(k, "node/")] = mn
		}
	}
	for _, q := range pi.pods {
		if q.Spec.NodeName == "" || placedUID[q.UID] || podTerminal(q) {
			continue
		}
		mn := byName[q.Spec.NodeName]
		if mn == nil {
			continue
		}
		// pods on nodes that are being deleted are on their way out: the plan is made for the cluster without them
		if !p.usableCapacity(pi, "node/"+mn.Name, mn) {
			continue
		}
		if len(requiredAntiTerms(q)) > 0 {
			relevant = true
		}
		all = append(all, &Placed{Pod: q, Target: "node/" + mn.Name, Node: mn, Domains: labelDomains(withHostname(mn))})
	}
	if !relevant {
		return
	}
	s.Probe("c02-plan-checked")
	// the placements are observed through the nominations that follow each written NodeClaim: when the pass ended
	// with an error (a create failed or never happened) the plan is only partly visible
	partial := pi.task.Err != nil
	for _, w := range pi.task.Writes {
		if w.Kind == "NodeClaim" && w.Verb == "create" && w.Err != nil {
			partial = true
		}
	}
	if partial {
		s.Probe("c02-plan-partial")
	}
	if o, msg := CheckInterPod(all, p.namespaces(), partial); o != "" {
		s.Violate("C02", o, "%s", msg)
	}
}

func withHostname(mn *ModelNode) map[string]string {
	if _, ok := mn.Labels[corev1.LabelHostname]; ok {
		return mn.Labels
	}
	l := map[string]string{corev1.LabelHostname: mn.Name}
	for k, v := range mn.Labels {
		l[k] = v
	}
	return l
}
