package sim

// Entry point of the simulation binary (built with `go test -c`): runs seeded runs of a profile
// inside synctest bubbles and prints one JSON line per run.

import (
	"bufio"
	"encoding/json"
	"fmt"
	"os"
	"runtime"
	"runtime/debug"
	"strconv"
	"strings"
	"sync/atomic"
	"syscall"
	"testing"
	"testing/synctest"
	"time"
	_ "unsafe"

	utilruntime "k8s.io/apimachinery/pkg/util/runtime"
	utilrand "k8s.io/apimachinery/pkg/util/rand"
)

//go:linkname verifSetSeed runtime.VerifSetSeed
func verifSetSeed(uint64)

type RunReport struct {
	Cfg       RunConfig      `json:"cfg"`
	Steps     int            `json:"steps"`
	SimSecs   float64        `json:"sim_s"`
	WallMs    float64        `json:"wall_ms"`
	LogHash   string         `json:"log_hash"`
	Choices   int            `json:"choices"`
	Viol      []Violation    `json:"violations,omitempty"`
	Fatal     string         `json:"fatal,omitempty"`
	Stats     map[string]int `json:"stats"`
	Probes    map[string]int `json:"probes"`
	SchedSig  string         `json:"sched_sig"`
	StateSigs int            `json:"state_sigs"`
	Faults    []string       `json:"fault_kinds"`
	Trace     []int          `json:"trace,omitempty"`
	Log       []string       `json:"log,omitempty"`
	Sample    []string       `json:"sample,omitempty"`
	Calls     int            `json:"calls"`
	Goroutines int           `json:"goroutines"`
	RSSMB     int            `json:"rss_mb"`
}

var progress atomic.Int64

func wallNow() float64 {
	var tv syscall.Timeval
	_ = syscall.Gettimeofday(&tv)
	return float64(tv.Sec)*1000 + float64(tv.Usec)/1000
}

// RunOne executes one run in its own bubble. replay==nil means generate from the seed.
func RunOne(t *testing.T, cfg RunConfig, replay []int, withTrace bool) (rep *RunReport) {
	verifSetSeed(cfg.Seed)
	utilrand.Seed(int64(cfg.Seed))
	t0 := wallNow()
	cfg.progress = func() { progress.Add(1) }
	var ch *Chooser
	if replay != nil {
		ch = NewReplayChooser(cfg.Seed, replay)
	} else {
		ch = NewChooser(cfg.Seed)
	}
	rep = &RunReport{Cfg: cfg}
	func() {
		defer func() {
			if r := recover(); r != nil {
				msg := fmt.Sprint(r)
				if !strings.Contains(msg, "blocked goroutines remain") && !strings.Contains(msg, "deadlock") {
					rep.Fatal = "panic in simulator: " + msg + "\n" + string(debug.Stack())
				}
			}
		}()
		synctest.Test(t, func(t *testing.T) {
			mk, ok := Profiles[cfg.Profile]
			if !ok {
				rep.Fatal = "unknown profile " + cfg.Profile
				return
			}
			s := NewSim(&cfg, ch)
			func() {
				defer func() {
					if r := recover(); r != nil {
						rep.Fatal = fmt.Sprintf("panic in profile: %v\n%s", r, debug.Stack())
					}
				}()
				mk().Run(s)
			}()
			rep.Steps = s.step
			rep.SimSecs = s.Elapsed().Seconds()
			rep.LogHash = strconv.FormatUint(s.LogHash(), 16)
			rep.Choices = len(ch.Trace)
			rep.Viol = s.Viol
			if s.Fatal != "" {
				rep.Fatal = s.Fatal
			}
			rep.Stats = s.Stats
			rep.Probes = s.Probes
			rep.SchedSig = strconv.FormatUint(s.SchedSig, 16)
			rep.StateSigs = len(s.StateSig)
			rep.Calls = s.callIdx
			for k := range s.Knobs.FaultKinds {
				rep.Faults = append(rep.Faults, k)
			}
			if withTrace || len(s.Viol) > 0 {
				rep.Trace = ch.Values()
			}
			if cfg.KeepLog {
				rep.Log = s.LogLines
			}
			rep.Sample = s.Sample
			s.Shutdown()
			if os.Getenv("VERIF_DEBUG_GOROUTINES") != "" {
				buf := make([]byte, 1<<20)
				n := runtime.Stack(buf, true)
				fmt.Fprintf(os.Stderr, "GOROUTINES AT END:\n%s\n", buf[:n])
			}
		})
	}()
	rep.WallMs = wallNow() - t0
	rep.Goroutines = runtime.NumGoroutine()
	rep.RSSMB = rssMB()
	return rep
}

func rssMB() int {
	b, err := os.ReadFile("/proc/self/statm")
	if err != nil {
		return 0
	}
	f := strings.Fields(string(b))
	if len(f) < 2 {
		return 0
	}
	n, _ := strconv.Atoi(f[1])
	return n * 4 / 1024
}

func envInt(name string, def int) int {
	if v := os.Getenv(name); v != "" {
		n, err := strconv.Atoi(v)
		if err == nil {
			return n
		}
	}
	return def
}

type ReplayFile struct {
	Property  string    `json:"property"`
	Cfg       RunConfig `json:"cfg"`
	Trace     []int     `json:"trace"`
	Signature string    `json:"signature"`
	LogHash   string    `json:"log_hash"`
	Message   string    `json:"message"`
	Original  struct {
		Steps   int `json:"steps"`
		Choices int `json:"choices"`
		NonZero int `json:"nonzero_choices"`
	} `json:"original"`
	Minimised struct {
		Steps   int `json:"steps"`
		Choices int `json:"choices"`
		NonZero int `json:"nonzero_choices"`
	} `json:"minimised"`
	Log []string `json:"log,omitempty"`
}

func startWatchdog() {
	// runs outside any bubble: real time
	go func() {
		last := progress.Load()
		idle := 0
		for {
			time.Sleep(5 * time.Second)
			cur := progress.Load()
			if cur == last {
				idle++
			} else {
				idle = 0
			}
			last = cur
			if idle >= envInt("VERIF_HANG_SECS", 120)/5 {
				buf := make([]byte, 1<<20)
				n := runtime.Stack(buf, true)
				fmt.Fprintf(os.Stderr, "WATCHDOG: no simulator progress; goroutines:\n%s\n", buf[:n])
				os.Exit(2)
			}
		}
	}()
}

func TestSim(t *testing.T) {
	mode := os.Getenv("VERIF_MODE")
	if mode == "" {
		t.Skip("VERIF_MODE not set")
	}
	utilruntime.ReallyCrash = false
	debug.SetGCPercent(200)
	startWatchdog()
	out := bufio.NewWriter(os.Stdout)
	defer out.Flush()
	emit := func(v interface{}) {
		b, _ := json.Marshal(v)
		out.Write(b)
		out.WriteByte('\n')
		out.Flush()
	}
	switch mode {
	case "batch":
		cfg := RunConfig{Profile: os.Getenv("VERIF_PROFILE"), Property: os.Getenv("VERIF_PROPERTY"), Variant: os.Getenv("VERIF_VARIANT"), Sweep: os.Getenv("VERIF_SWEEP_CTRLS")}
		from, n := envInt("VERIF_FROM", 1), envInt("VERIF_N", 1)
		nofaultEvery := envInt("VERIF_NOFAULT_EVERY", 4)
		deadline := wallNow() + float64(envInt("VERIF_BUDGET_S", 3600))*1000
		for i := 0; i < n; i++ {
			if wallNow() > deadline {
				break
			}
			c := cfg
			c.Seed = uint64(from + i)
			c.NoFaults = nofaultEvery > 0 && (from+i)%nofaultEvery == 0
			c.KeepLog = os.Getenv("VERIF_KEEPLOG") != ""
			rep := RunOne(t, c, nil, os.Getenv("VERIF_TRACE") != "")
			emit(rep)
			if rep.Fatal != "" {
				break
			}
			if rep.RSSMB > envInt("VERIF_MAX_RSS_MB", 2500) && i+1 < n {
				// bound memory: the driver restarts a fresh process for the remaining seeds
				emit(map[string]interface{}{"recycle_from": from + i + 1, "recycle_n": n - i - 1})
				break
			}
		}
	case "sweep":
		runSweep(t, emit)
	case "replay":
		var rf ReplayFile
		b, err := os.ReadFile(os.Getenv("VERIF_REPLAY"))
		if err != nil {
			t.Fatal(err)
		}
		if err := json.Unmarshal(b, &rf); err != nil {
			t.Fatal(err)
		}
		c := rf.Cfg
		c.KeepLog = true
		rep := RunOne(t, c, rf.Trace, false)
		emit(rep)
	case "minimise":
		runMinimise(t, emit)
	default:
		t.Fatalf("unknown VERIF_MODE %q", mode)
	}
}
