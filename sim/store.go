package sim

// A small model of kube-apiserver + etcd for typed objects. It is the largest trusted stub of
// the simulation; it implements only what the code under test uses (DESIGN.md section 2).

import (
	"bytes"
	"encoding/json"
	"hash/fnv"
	"fmt"
	"sort"
	"strconv"
	"strings"
	"time"

	jsonpatch "github.com/evanphx/json-patch/v5"
	corev1 "k8s.io/api/core/v1"
	policyv1 "k8s.io/api/policy/v1"
	apierrors "k8s.io/apimachinery/pkg/api/errors"
	"k8s.io/apimachinery/pkg/api/meta"
	metav1 "k8s.io/apimachinery/pkg/apis/meta/v1"
	"k8s.io/apimachinery/pkg/fields"
	"k8s.io/apimachinery/pkg/labels"
	"k8s.io/apimachinery/pkg/runtime"
	"k8s.io/apimachinery/pkg/runtime/schema"
	"k8s.io/apimachinery/pkg/types"
	"k8s.io/apimachinery/pkg/util/strategicpatch"
	"sigs.k8s.io/controller-runtime/pkg/client"
	"sigs.k8s.io/controller-runtime/pkg/client/apiutil"
)

type EventType int

const (
	EvAdded EventType = iota
	EvModified
	EvDeleted
)

func (e EventType) String() string { return [...]string{"ADD", "MOD", "DEL"}[e] }

type WatchEvent struct {
	Seq  uint64
	Type EventType
	GVK  schema.GroupVersionKind
	Key  types.NamespacedName
	Obj  client.Object // immutable snapshot
	At   time.Time
	Step int
}

type objMap map[schema.GroupVersionKind]map[types.NamespacedName]client.Object

func (m objMap) get(gvk schema.GroupVersionKind, key types.NamespacedName) client.Object {
	if k, ok := m[gvk]; ok {
		return k[key]
	}
	return nil
}
func (m objMap) put(gvk schema.GroupVersionKind, key types.NamespacedName, o client.Object) {
	k, ok := m[gvk]
	if !ok {
		k = map[types.NamespacedName]client.Object{}
		m[gvk] = k
	}
	k[key] = o
}
func (m objMap) del(gvk schema.GroupVersionKind, key types.NamespacedName) {
	if k, ok := m[gvk]; ok {
		delete(k, key)
	}
}
func (m objMap) sortedKeys(gvk schema.GroupVersionKind) []types.NamespacedName {
	k := m[gvk]
	keys := make([]types.NamespacedName, 0, len(k))
	for key := range k {
		keys = append(keys, key)
	}
	sort.Slice(keys, func(i, j int) bool {
		if keys[i].Namespace != keys[j].Namespace {
			return keys[i].Namespace < keys[j].Namespace
		}
		return keys[i].Name < keys[j].Name
	})
	return keys
}

type IndexFunc func(client.Object) []string

// Store is the API server. All methods are called with the simulator's big lock NOT held; it has
// no lock of its own because the simulator runs one goroutine at a time.
type Store struct {
	sim     *Sim
	scheme  *runtime.Scheme
	objs    objMap
	rv      uint64
	uid     uint64
	nameSeq uint64
	evSeq   uint64
	indexes map[schema.GroupVersionKind]map[string]IndexFunc
	// history of Initialized etc. is kept by oracles through OnWrite hooks
	OnWrite []func(ev WatchEvent, old client.Object, by *Task)
}

func NewStore(s *Sim, scheme *runtime.Scheme) *Store {
	return &Store{sim: s, scheme: scheme, objs: objMap{}, indexes: map[schema.GroupVersionKind]map[string]IndexFunc{}}
}

func (st *Store) GVK(obj runtime.Object) schema.GroupVersionKind {
	gvk, err := apiutil.GVKForObject(obj, st.scheme)
	if err != nil {
		panic(fmt.Sprintf("sim: no gvk for %T: %v", obj, err))
	}
	return gvk
}

func (st *Store) AddIndex(obj client.Object, field string, fn IndexFunc) {
	gvk := st.GVK(obj)
	if st.indexes[gvk] == nil {
		st.indexes[gvk] = map[string]IndexFunc{}
	}
	st.indexes[gvk][field] = fn
}

func gr(gvk schema.GroupVersionKind) schema.GroupResource {
	return schema.GroupResource{Group: gvk.Group, Resource: strings.ToLower(gvk.Kind) + "s"}
}

func keyOf(o client.Object) types.NamespacedName {
	return types.NamespacedName{Namespace: o.GetNamespace(), Name: o.GetName()}
}

func (st *Store) newLike(gvk schema.GroupVersionKind) client.Object {
	o, err := st.scheme.New(gvk)
	if err != nil {
		panic(err)
	}
	return o.(client.Object)
}

func toJSONMap(o client.Object) map[string]interface{} {
	b, err := json.Marshal(o)
	if err != nil {
		panic(err)
	}
	m := map[string]interface{}{}
	if err := json.Unmarshal(b, &m); err != nil {
		panic(err)
	}
	return m
}

func (st *Store) fromJSON(gvk schema.GroupVersionKind, b []byte) (client.Object, error) {
	o := st.newLike(gvk)
	if err := json.Unmarshal(b, o); err != nil {
		return nil, err
	}
	return o, nil
}

// normalize round-trips an object through JSON, as a real client/server exchange does (second
// precision timestamps, omitted empties).
func (st *Store) normalize(gvk schema.GroupVersionKind, o client.Object) client.Object {
	b, err := json.Marshal(o)
	if err != nil {
		panic(err)
	}
	n, err := st.fromJSON(gvk, b)
	if err != nil {
		panic(err)
	}
	return n
}

func (st *Store) now() metav1.Time {
	return metav1.NewTime(st.sim.Now().Truncate(time.Second))
}

func (st *Store) nextRV() string {
	st.rv++
	return strconv.FormatUint(st.rv, 10)
}

const nameAlphabet = "bcdfghjklmnpqrstvwxz2456789"

func (st *Store) genSuffix() string {
	st.nameSeq++
	n := st.nameSeq*2654435761 + 12345
	b := make([]byte, 5)
	for i := range b {
		b[i] = nameAlphabet[n%uint64(len(nameAlphabet))]
		n /= uint64(len(nameAlphabet))
	}
	return string(b)
}

func (st *Store) emit(t EventType, gvk schema.GroupVersionKind, obj client.Object, old client.Object, by *Task) {
	st.evSeq++
	ev := WatchEvent{Seq: st.evSeq, Type: t, GVK: gvk, Key: keyOf(obj), Obj: obj, At: st.sim.Now(), Step: st.sim.step}
	// every committed object version is part of the run identity: a divergence in content (not only in the
	// sequence of calls) changes the event-log hash
	if b, err := json.Marshal(obj); err == nil {
		h := fnv.New64a()
		h.Write(b)
		st.sim.Logf("obj  %s %s %s/%s rv=%s h=%016x", t, gvk.Kind, obj.GetNamespace(), obj.GetName(), obj.GetResourceVersion(), h.Sum64())
	}
	for _, f := range st.OnWrite {
		f(ev, old, by)
	}
	st.sim.cache.enqueue(ev)
}

// ---- reads (server truth; used by the simulator, actors and oracles)

func (st *Store) Get(gvk schema.GroupVersionKind, key types.NamespacedName) client.Object {
	return st.objs.get(gvk, key)
}

func (st *Store) List(gvk schema.GroupVersionKind) []client.Object {
	keys := st.objs.sortedKeys(gvk)
	out := make([]client.Object, 0, len(keys))
	for _, k := range keys {
		out = append(out, st.objs[gvk][k])
	}
	return out
}

// ---- writes

func (st *Store) Create(obj client.Object, by *Task) (client.Object, error) {
	gvk := st.GVK(obj)
	n := st.normalize(gvk, obj)
	if n.GetName() == "" {
		if n.GetGenerateName() == "" {
			return nil, apierrors.NewInvalid(gvk.GroupKind(), "", nil)
		}
		n.SetName(n.GetGenerateName() + st.genSuffix())
	}
	key := keyOf(n)
	if st.objs.get(gvk, key) != nil {
		return nil, apierrors.NewAlreadyExists(gr(gvk), key.Name)
	}
	st.uid++
	n.SetUID(types.UID(fmt.Sprintf("uid-%06d", st.uid)))
	n.SetResourceVersion(st.nextRV())
	n.SetCreationTimestamp(st.now())
	n.SetGeneration(1)
	n.SetDeletionTimestamp(nil)
	n.SetManagedFields(nil)
	st.objs.put(gvk, key, n)
	st.emit(EvAdded, gvk, n, nil, by)
	return n, nil
}

func stripForCompare(m map[string]interface{}) {
	if md, ok := m["metadata"].(map[string]interface{}); ok {
		delete(md, "resourceVersion")
		delete(md, "generation")
		delete(md, "managedFields")
	}
}

// commit installs newObj (a full object JSON map) as the next version of cur, applying the
// main-resource / status-subresource separation, generation bumping, immutable metadata and
// finalizer-driven removal. sub is "" or "status".
func (st *Store) commit(gvk schema.GroupVersionKind, cur client.Object, newMap map[string]interface{}, sub string, by *Task) (client.Object, error) {
	curMap := toJSONMap(cur)
	if sub == "status" {
		st2 := newMap["status"]
		newMap = toJSONMap(cur)
		if st2 == nil {
			delete(newMap, "status")
		} else {
			newMap["status"] = st2
		}
	} else if hasStatusSubresource(gvk) {
		if s, ok := curMap["status"]; ok {
			newMap["status"] = s
		} else {
			delete(newMap, "status")
		}
	}
	// immutable / server-owned metadata
	nm, _ := newMap["metadata"].(map[string]interface{})
	cm, _ := curMap["metadata"].(map[string]interface{})
	if nm == nil {
		nm = map[string]interface{}{}
		newMap["metadata"] = nm
	}
	for _, f := range []string{"uid", "creationTimestamp", "name", "namespace", "deletionTimestamp", "deletionGracePeriodSeconds", "generation", "resourceVersion"} {
		if v, ok := cm[f]; ok {
			nm[f] = v
		} else {
			delete(nm, f)
		}
	}
	// no-op detection
	a, b := toComparable(curMap), toComparable(newMap)
	if bytes.Equal(a, b) {
		return cur, nil
	}
	// generation: bump when anything outside metadata and status changed
	if specChanged(curMap, newMap) {
		nm["generation"] = cur.GetGeneration() + 1
	}
	raw, err := json.Marshal(newMap)
	if err != nil {
		return nil, err
	}
	n, err := st.fromJSON(gvk, raw)
	if err != nil {
		return nil, apierrors.NewBadRequest(err.Error())
	}
	key := keyOf(cur)
	n.SetResourceVersion(st.nextRV())
	// finalizer removal completes a pending deletion
	if n.GetDeletionTimestamp() != nil && len(n.GetFinalizers()) == 0 && !isGracefulPod(n) {
		st.objs.del(gvk, key)
		st.emit(EvDeleted, gvk, n, cur, by)
		return n, nil
	}
	st.objs.put(gvk, key, n)
	st.emit(EvModified, gvk, n, cur, by)
	return n, nil
}

func isGracefulPod(o client.Object) bool {
	// a terminating pod without finalizers stays until the kubelet actor removes it
	p, ok := o.(*corev1.Pod)
	return ok && p.DeletionTimestamp != nil && p.Spec.NodeName != ""
}

func toComparable(m map[string]interface{}) []byte {
	c := deepCopyJSON(m).(map[string]interface{})
	stripForCompare(c)
	b, _ := json.Marshal(c)
	return b
}

func deepCopyJSON(v interface{}) interface{} {
	switch x := v.(type) {
	case map[string]interface{}:
		o := make(map[string]interface{}, len(x))
		for k, vv := range x {
			o[k] = deepCopyJSON(vv)
		}
		return o
	case []interface{}:
		o := make([]interface{}, len(x))
		for i, vv := range x {
			o[i] = deepCopyJSON(vv)
		}
		return o
	default:
		return v
	}
}

func specChanged(a, b map[string]interface{}) bool {
	keys := map[string]bool{}
	for k := range a {
		keys[k] = true
	}
	for k := range b {
		keys[k] = true
	}
	for k := range keys {
		if k == "metadata" || k == "status" || k == "kind" || k == "apiVersion" {
			continue
		}
		x, _ := json.Marshal(a[k])
		y, _ := json.Marshal(b[k])
		if !bytes.Equal(x, y) {
			return true
		}
	}
	return false
}

func hasStatusSubresource(gvk schema.GroupVersionKind) bool {
	switch gvk.Kind {
	case "CSINode", "StorageClass", "Namespace", "VolumeAttachment", "PriorityClass", "ConfigMap", "Secret":
		return false
	}
	return true
}

func (st *Store) Update(obj client.Object, sub string, by *Task) (client.Object, error) {
	gvk := st.GVK(obj)
	key := keyOf(obj)
	cur := st.objs.get(gvk, key)
	if cur == nil {
		return nil, apierrors.NewNotFound(gr(gvk), key.Name)
	}
	if rv := obj.GetResourceVersion(); rv != "" && rv != cur.GetResourceVersion() {
		return nil, apierrors.NewConflict(gr(gvk), key.Name, fmt.Errorf("the object has been modified; please apply your changes to the latest version and try again"))
	}
	if obj.GetUID() != "" && obj.GetUID() != cur.GetUID() {
		return nil, apierrors.NewConflict(gr(gvk), key.Name, fmt.Errorf("uid mismatch"))
	}
	return st.commit(gvk, cur, toJSONMap(obj), sub, by)
}

func (st *Store) Patch(obj client.Object, pt types.PatchType, data []byte, sub string, by *Task) (client.Object, error) {
	gvk := st.GVK(obj)
	key := keyOf(obj)
	cur := st.objs.get(gvk, key)
	if cur == nil {
		return nil, apierrors.NewNotFound(gr(gvk), key.Name)
	}
	// optimistic lock carried inside the patch
	var probe struct {
		Metadata struct {
			ResourceVersion string `json:"resourceVersion"`
			UID             string `json:"uid"`
		} `json:"metadata"`
	}
	_ = json.Unmarshal(data, &probe)
	if probe.Metadata.ResourceVersion != "" && probe.Metadata.ResourceVersion != cur.GetResourceVersion() {
		return nil, apierrors.NewConflict(gr(gvk), key.Name, fmt.Errorf("the object has been modified; please apply your changes to the latest version and try again"))
	}
	if probe.Metadata.UID != "" && probe.Metadata.UID != string(cur.GetUID()) {
		return nil, apierrors.NewConflict(gr(gvk), key.Name, fmt.Errorf("uid mismatch"))
	}
	curJSON, err := json.Marshal(cur)
	if err != nil {
		return nil, err
	}
	var patched []byte
	switch pt {
	case types.MergePatchType:
		patched, err = jsonpatch.MergePatch(curJSON, data)
	case types.StrategicMergePatchType:
		patched, err = strategicpatch.StrategicMergePatch(curJSON, data, st.newLike(gvk))
	default:
		return nil, apierrors.NewBadRequest("unsupported patch type " + string(pt))
	}
	if err != nil {
		return nil, apierrors.NewBadRequest(err.Error())
	}
	m := map[string]interface{}{}
	if err := json.Unmarshal(patched, &m); err != nil {
		return nil, apierrors.NewBadRequest(err.Error())
	}
	return st.commit(gvk, cur, m, sub, by)
}

type DeleteOpts struct {
	Grace   *int64
	UID     *types.UID
	RV      *string
	Evicted bool
}

func (st *Store) Delete(obj client.Object, o DeleteOpts, by *Task) error {
	gvk := st.GVK(obj)
	key := keyOf(obj)
	cur := st.objs.get(gvk, key)
	if cur == nil {
		return apierrors.NewNotFound(gr(gvk), key.Name)
	}
	if o.UID != nil && *o.UID != cur.GetUID() {
		return apierrors.NewConflict(gr(gvk), key.Name, fmt.Errorf("Precondition failed: UID in precondition: %v, UID in object meta: %v", *o.UID, cur.GetUID()))
	}
	if o.RV != nil && *o.RV != cur.GetResourceVersion() {
		return apierrors.NewConflict(gr(gvk), key.Name, fmt.Errorf("Precondition failed: ResourceVersion"))
	}
	now := st.now()
	if pod, ok := cur.(*corev1.Pod); ok {
		grace := int64(30)
		if pod.Spec.TerminationGracePeriodSeconds != nil {
			grace = *pod.Spec.TerminationGracePeriodSeconds
		}
		if o.Grace != nil {
			grace = *o.Grace
		}
		terminal := pod.Status.Phase == corev1.PodSucceeded || pod.Status.Phase == corev1.PodFailed
		if pod.Spec.NodeName == "" || terminal {
			grace = 0
		}
		if grace == 0 && len(pod.Finalizers) == 0 {
			st.objs.del(gvk, key)
			n := pod.DeepCopy()
			n.ResourceVersion = st.nextRV()
			st.emit(EvDeleted, gvk, n, cur, by)
			return nil
		}
		dt := metav1.NewTime(now.Add(time.Duration(grace) * time.Second))
		if pod.DeletionTimestamp != nil && !dt.Before(pod.DeletionTimestamp) {
			return nil // grace can only be shortened
		}
		n := pod.DeepCopy()
		n.DeletionTimestamp = &dt
		n.DeletionGracePeriodSeconds = &grace
		n.ResourceVersion = st.nextRV()
		st.objs.put(gvk, key, n)
		st.emit(EvModified, gvk, n, cur, by)
		return nil
	}
	if len(cur.GetFinalizers()) == 0 {
		st.objs.del(gvk, key)
		n := cur.DeepCopyObject().(client.Object)
		n.SetResourceVersion(st.nextRV())
		st.emit(EvDeleted, gvk, n, cur, by)
		return nil
	}
	if cur.GetDeletionTimestamp() != nil {
		return nil
	}
	n := cur.DeepCopyObject().(client.Object)
	n.SetDeletionTimestamp(&now)
	zero := int64(0)
	n.SetDeletionGracePeriodSeconds(&zero)
	n.SetResourceVersion(st.nextRV())
	st.objs.put(gvk, key, n)
	st.emit(EvModified, gvk, n, cur, by)
	return nil
}

// Remove hard-deletes an object regardless of finalizers (kubelet finishing a pod, etc.).
func (st *Store) Remove(gvk schema.GroupVersionKind, key types.NamespacedName, by *Task) {
	cur := st.objs.get(gvk, key)
	if cur == nil {
		return
	}
	st.objs.del(gvk, key)
	n := cur.DeepCopyObject().(client.Object)
	n.SetResourceVersion(st.nextRV())
	st.emit(EvDeleted, gvk, n, cur, by)
}

// Mutate applies fn to a copy of the current object and commits it as an environment write
// (both main resource and status may change). Returns false when the object is gone.
func (st *Store) Mutate(gvk schema.GroupVersionKind, key types.NamespacedName, fn func(o client.Object)) bool {
	cur := st.objs.get(gvk, key)
	if cur == nil {
		return false
	}
	n := cur.DeepCopyObject().(client.Object)
	fn(n)
	m := toJSONMap(n)
	cm := toJSONMap(cur)
	if bytes.Equal(toComparable(cm), toComparable(m)) {
		return true
	}
	nm, _ := m["metadata"].(map[string]interface{})
	if specChanged(cm, m) {
		nm["generation"] = cur.GetGeneration() + 1
	}
	raw, _ := json.Marshal(m)
	nn, err := st.fromJSON(gvk, raw)
	if err != nil {
		panic(err)
	}
	nn.SetResourceVersion(st.nextRV())
	if nn.GetDeletionTimestamp() != nil && len(nn.GetFinalizers()) == 0 && !isGracefulPod(nn) {
		st.objs.del(gvk, key)
		st.emit(EvDeleted, gvk, nn, cur, nil)
		return true
	}
	st.objs.put(gvk, key, nn)
	st.emit(EvModified, gvk, nn, cur, nil)
	return true
}

// Evict models POST pods/eviction.
func (st *Store) Evict(pod *corev1.Pod, ev *policyv1.Eviction, by *Task) error {
	gvk := st.GVK(pod)
	key := keyOf(pod)
	curO := st.objs.get(gvk, key)
	if curO == nil {
		return apierrors.NewNotFound(gr(gvk), key.Name)
	}
	cur := curO.(*corev1.Pod)
	var opts DeleteOpts
	if ev != nil && ev.DeleteOptions != nil {
		if ev.DeleteOptions.Preconditions != nil && ev.DeleteOptions.Preconditions.UID != nil {
			if *ev.DeleteOptions.Preconditions.UID != cur.UID {
				return apierrors.NewConflict(gr(gvk), key.Name, fmt.Errorf("Precondition failed: UID in precondition: %v, UID in object meta: %v", *ev.DeleteOptions.Preconditions.UID, cur.UID))
			}
		}
		opts.Grace = ev.DeleteOptions.GracePeriodSeconds
	}
	opts.Evicted = true
	terminal := cur.Status.Phase == corev1.PodSucceeded || cur.Status.Phase == corev1.PodFailed
	if !terminal && cur.DeletionTimestamp == nil {
		pdbGVK := policyv1.SchemeGroupVersion.WithKind("PodDisruptionBudget")
		var matching []*policyv1.PodDisruptionBudget
		for _, o := range st.List(pdbGVK) {
			pdb := o.(*policyv1.PodDisruptionBudget)
			if pdb.Namespace != cur.Namespace {
				continue
			}
			sel, err := metav1.LabelSelectorAsSelector(pdb.Spec.Selector)
			if err != nil || sel.Empty() && pdb.Spec.Selector == nil {
				continue
			}
			if sel.Matches(labels.Set(cur.Labels)) {
				matching = append(matching, pdb)
			}
		}
		if len(matching) > 1 {
			return apierrors.NewInternalError(fmt.Errorf("This pod has more than one PodDisruptionBudget, which the eviction subresource does not support."))
		}
		if len(matching) == 1 {
			pdb := matching[0]
			if pdb.Status.DisruptionsAllowed <= 0 {
				e := apierrors.NewTooManyRequests("Cannot evict pod as it would violate the pod's disruption budget.", 0)
				e.ErrStatus.Details.Causes = append(e.ErrStatus.Details.Causes, metav1.StatusCause{Type: policyv1.DisruptionBudgetCause, Message: "The disruption budget " + pdb.Name + " needs more healthy pods"})
				return e
			}
			st.Mutate(pdbGVK, keyOf(pdb), func(o client.Object) {
				o.(*policyv1.PodDisruptionBudget).Status.DisruptionsAllowed--
			})
		}
	}
	return st.Delete(cur, opts, by)
}

// ---- selection helpers shared with the cache

type listFilter struct {
	ns     string
	labels labels.Selector
	fields fields.Selector
}

func (st *Store) matches(gvk schema.GroupVersionKind, o client.Object, f listFilter) (bool, error) {
	if f.ns != "" && o.GetNamespace() != f.ns {
		return false, nil
	}
	if f.labels != nil && !f.labels.Matches(labels.Set(o.GetLabels())) {
		return false, nil
	}
	if f.fields != nil {
		for _, r := range f.fields.Requirements() {
			var vals []string
			switch r.Field {
			case "metadata.name":
				vals = []string{o.GetName()}
			case "metadata.namespace":
				vals = []string{o.GetNamespace()}
			default:
				fn := st.indexes[gvk][r.Field]
				if fn == nil {
					return false, fmt.Errorf("sim: no index for %s %s", gvk.Kind, r.Field)
				}
				vals = fn(o)
			}
			hit := false
			for _, v := range vals {
				if v == r.Value {
					hit = true
				}
			}
			if !hit {
				return false, nil
			}
		}
	}
	return true, nil
}

func setList(list client.ObjectList, items []client.Object) error {
	ros := make([]runtime.Object, len(items))
	for i, it := range items {
		ros[i] = it
	}
	return meta.SetList(list, ros)
}
