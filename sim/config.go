package sim

import (
	"strings"
	"time"
)

type ForcedFault struct {
	Index int       `json:"index"`
	Kind  FaultKind `json:"kind"`
}

// RunConfig identifies one run. Everything else is drawn from the chooser.
type RunConfig struct {
	Seed     uint64       `json:"seed"`
	Profile  string       `json:"profile"`
	Property string       `json:"property"`
	NoFaults bool         `json:"no_faults"`
	Forced   *ForcedFault `json:"forced,omitempty"`
	MaxSteps int          `json:"max_steps,omitempty"`
	Variant  string       `json:"variant,omitempty"` // profile-specific sub-mode
	Sweep    string       `json:"sweep_ctrls,omitempty"` // comma separated controllers whose calls the single-fault sweep enumerates
	KeepLog  bool         `json:"-"`
	NoPark   bool         `json:"-"`
	progress func()
}

// Knobs are the per-run swarm parameters (drawn once at the start of the run).
type Knobs struct {
	PSwitch     float64
	PTimeBusy   float64
	WDeliver    int
	WStart      int
	WResume     int
	WTime       int
	WDue        int
	MaxLagSteps int
	MaxLag      time.Duration

	PApiErrBefore float64
	PApiErrAfter  float64
	PApiConflict  float64
	PSlow         float64
	PCpErr        float64
	PCrash        float64
	FaultKinds    map[string]bool
	StallPick     int // > 0: 1 + index (mod number of controllers, by name) of the stalled controller
}

func (s *Sim) DrawKnobs() {
	ch := s.Ch
	k := Knobs{WDeliver: 40, WStart: 20, WResume: 20, WTime: 20, WDue: 20, MaxLagSteps: 40, MaxLag: 2 * time.Second, FaultKinds: map[string]bool{}}
	// preemption probability: mostly small, sometimes chaotic
	switch ch.Pick("k.pswitch", 6) {
	case 0:
		k.PSwitch = 0.02
	case 1:
		k.PSwitch = 0
	case 2:
		k.PSwitch = 0.05
	case 3:
		k.PSwitch = 0.15
	case 4:
		k.PSwitch = 0.3
	case 5:
		k.PSwitch = 0.5
	}
	k.WDeliver = []int{40, 10, 80, 20}[ch.Pick("k.wdeliver", 4)]
	k.WStart = []int{20, 40, 10}[ch.Pick("k.wstart", 3)]
	k.WResume = []int{20, 5, 60}[ch.Pick("k.wresume", 3)]
	k.PTimeBusy = []float64{0.01, 0, 0.05, 0.2}[ch.Pick("k.ptimebusy", 4)]
	k.MaxLagSteps = []int{40, 10, 100}[ch.Pick("k.lag", 3)]
	if !s.Cfg.NoFaults && s.Cfg.Forced == nil {
		// swarm: each fault kind is enabled in a subset of runs
		mode := ch.Pick("k.faultmode", 8) // 0 none, 1..5 single kinds, 6 two kinds, 7 all
		rate := []float64{0.01, 0.03, 0.08}[ch.Pick("k.faultrate", 3)]
		on := func(name string) bool {
			switch mode {
			case 0:
				return false
			case 7:
				return true
			}
			names := []string{"api.before", "api.after", "api.conflict", "slow", "cp", "crash"}
			if mode <= 5 {
				return names[mode-1] == name || (mode == 5 && name == "crash")
			}
			// mode 6: two kinds chosen by seed
			a := int(s.Cfg.Seed % 6)
			b := int((s.Cfg.Seed / 6) % 6)
			return names[a] == name || names[b] == name
		}
		if on("api.before") {
			k.PApiErrBefore = rate
			k.FaultKinds["api.err.before"] = true
		}
		if on("api.after") {
			k.PApiErrAfter = rate
			k.FaultKinds["api.err.after"] = true
		}
		if on("api.conflict") {
			k.PApiConflict = rate
			k.FaultKinds["api.conflict"] = true
		}
		if on("slow") {
			k.PSlow = rate * 3
			k.FaultKinds["api.slow"] = true
		}
		if on("cp") {
			k.PCpErr = rate * 2
			k.FaultKinds["cp.err"] = true
		}
		if on("crash") {
			k.PCrash = rate / 10
			k.FaultKinds["crash"] = true
		}
	}
	// a stalled component: in a third of the fault-injecting runs one controller (chosen by the run) starts its
	// reconciles far less readily than the others while faults are on; it still runs whenever nothing else can
	if !s.Cfg.NoFaults && s.Cfg.Forced == nil {
		if v := ch.Pick("k.stall", 90); v < 30 {
			k.StallPick = v + 1
			k.FaultKinds["ctrl.stall"] = true
		}
	}
	s.Knobs = k
}

// decideFaults is called by the simulator when it releases a parked request.
func (s *Sim) decideFaults(c *Call) resume {
	r := resume{}
	eligible := c.Task.Ctrl.UnderTest
	if eligible && s.Cfg.Sweep != "" && (s.Cfg.Forced != nil || s.Cfg.NoFaults) {
		eligible = strings.Contains(","+s.Cfg.Sweep+",", ","+c.Task.Ctrl.Name+",")
	}
	if eligible {
		s.callIdx++
		c.Idx = s.callIdx
	}
	k := &s.Knobs
	if ff := s.Cfg.Forced; ff != nil {
		if eligible && c.Idx == ff.Index {
			r.fault = ff.Kind
			if !c.Write && (r.fault == FErrAfter || r.fault == FConflict) {
				r.fault = FErrBefore
			}
			s.Stat("fault.forced." + r.fault.String())
			s.faultStep = s.step
		}
	} else if s.FaultsOn && eligible {
		switch c.Seam {
		case "api":
			switch {
			case s.Ch.Chance("f.api.before", k.PApiErrBefore):
				r.fault = FErrBefore
			case c.Write && s.Ch.Chance("f.api.after", k.PApiErrAfter):
				r.fault = FErrAfter
			case c.Write && (c.Verb == "update" || c.Verb == "patch" || c.Verb == "status-patch" || c.Verb == "status-update") && s.Ch.Chance("f.api.conflict", k.PApiConflict):
				r.fault = FConflict
			}
		case "cp":
			switch {
			case s.Ch.Chance("f.cp.before", k.PCpErr):
				r.fault = FErrBefore
			case c.Write && s.Ch.Chance("f.cp.after", k.PCpErr/2):
				r.fault = FErrAfter
			}
		}
		if r.fault != FNone {
			s.Stat("fault." + c.Seam + "." + r.fault.String())
			s.faultStep = s.step
		}
		if s.Ch.Chance("f.slow", k.PSlow) {
			r.slow = true
			s.Stat("fault.api.slow")
		}
	}
	if c.Seam == "cp" && (c.Verb == "create" || c.Verb == "list") {
		r.salt = uint64(s.Ch.Pick("salt", 1<<30))
	}
	return r
}
