package sim

// The client seam: reads are served from the lagging cache, writes go to the server store.
// Every call made with a task context parks first (Sim.Enter).

import (
	"context"
	"fmt"
	"reflect"

	corev1 "k8s.io/api/core/v1"
	policyv1 "k8s.io/api/policy/v1"
	apierrors "k8s.io/apimachinery/pkg/api/errors"
	"k8s.io/apimachinery/pkg/api/meta"
	"k8s.io/apimachinery/pkg/runtime"
	"k8s.io/apimachinery/pkg/runtime/schema"
	"k8s.io/apimachinery/pkg/types"
	"sigs.k8s.io/controller-runtime/pkg/client"
)

type Client struct {
	sim *Sim
}

var _ client.Client = (*Client)(nil)

func NewClient(s *Sim) *Client { return &Client{sim: s} }

func (c *Client) Scheme() *runtime.Scheme   { return c.sim.store.scheme }
func (c *Client) RESTMapper() meta.RESTMapper { return nil }
func (c *Client) GroupVersionKindFor(obj runtime.Object) (schema.GroupVersionKind, error) {
	return c.sim.store.GVK(obj), nil
}
func (c *Client) IsObjectNamespaced(obj runtime.Object) (bool, error) {
	switch c.sim.store.GVK(obj).Kind {
	case "Node", "NodeClaim", "NodePool", "TestNodeClass", "PersistentVolume", "StorageClass", "CSINode", "VolumeAttachment", "Namespace", "PriorityClass", "NodeOverlay":
		return false, nil
	}
	return true, nil
}

func injectedErr(c *Call, gvk schema.GroupVersionKind) error {
	switch c.Idx % 3 {
	case 0:
		return apierrors.NewInternalError(fmt.Errorf("sim: injected server error"))
	case 1:
		return apierrors.NewServerTimeout(gr(gvk), c.Verb, 1)
	default:
		return context.DeadlineExceeded
	}
}

func copyInto(dst, src client.Object) {
	reflect.ValueOf(dst).Elem().Set(reflect.ValueOf(src.DeepCopyObject()).Elem())
}

func (c *Client) Get(ctx context.Context, key client.ObjectKey, obj client.Object, _ ...client.GetOption) error {
	s := c.sim
	gvk := s.store.GVK(obj)
	call := s.Enter(ctx, "api", "get", gvk.Kind, key.String(), false)
	t := TaskFrom(ctx)
	if call != nil && call.res.fault == FErrBefore {
		err := injectedErr(call, gvk)
		t.Reads = append(t.Reads, ReadRec{Verb: "get", Kind: gvk.Kind, Key: key.String(), Err: err, Step: s.step, At: s.Now(), EvSeq: s.store.evSeq})
		s.Leave(call)
		return err
	}
	o := s.cache.Get(gvk, key)
	if t != nil {
		rr := ReadRec{Verb: "get", Kind: gvk.Kind, Key: key.String(), Step: s.step, At: s.Now(), EvSeq: s.store.evSeq}
		if o != nil {
			rr.Objs = []interface{}{o}
		}
		t.Reads = append(t.Reads, rr)
	}
	if o == nil {
		s.Leave(call)
		return apierrors.NewNotFound(gr(gvk), key.Name)
	}
	copyInto(obj, o)
	s.Leave(call)
	return nil
}

func (c *Client) List(ctx context.Context, list client.ObjectList, opts ...client.ListOption) error {
	s := c.sim
	lgvk := s.store.GVK(list)
	gvk := lgvk
	if len(gvk.Kind) > 4 && gvk.Kind[len(gvk.Kind)-4:] == "List" {
		gvk.Kind = gvk.Kind[:len(gvk.Kind)-4]
	}
	lo := (&client.ListOptions{}).ApplyOptions(opts)
	f := listFilter{ns: lo.Namespace, labels: lo.LabelSelector, fields: lo.FieldSelector}
	desc := ""
	if f.ns != "" {
		desc += "ns=" + f.ns
	}
	if f.labels != nil && !f.labels.Empty() {
		desc += " l=" + f.labels.String()
	}
	if f.fields != nil && !f.fields.Empty() {
		desc += " f=" + f.fields.String()
	}
	call := s.Enter(ctx, "api", "list", gvk.Kind, desc, false)
	t := TaskFrom(ctx)
	if call != nil && call.res.fault == FErrBefore {
		err := injectedErr(call, gvk)
		t.Reads = append(t.Reads, ReadRec{Verb: "list", Kind: gvk.Kind, Key: desc, Err: err, Step: s.step, At: s.Now(), EvSeq: s.store.evSeq})
		s.Leave(call)
		return err
	}
	var items []client.Object
	var snaps []interface{}
	for _, o := range s.cache.List(gvk) {
		ok, err := s.store.matches(gvk, o, f)
		if err != nil {
			s.Leave(call)
			return err
		}
		if ok {
			items = append(items, o.DeepCopyObject().(client.Object))
			snaps = append(snaps, o)
		}
	}
	if t != nil {
		t.Reads = append(t.Reads, ReadRec{Verb: "list", Kind: gvk.Kind, Key: desc, Objs: snaps, Step: s.step, At: s.Now(), EvSeq: s.store.evSeq})
	}
	if err := setList(list, items); err != nil {
		s.Leave(call)
		return err
	}
	s.Leave(call)
	return nil
}

func (c *Client) record(t *Task, call *Call, verb string, gvk schema.GroupVersionKind, key string, obj interface{}, err error) {
	if t == nil {
		return
	}
	f := FNone
	if call != nil {
		f = call.res.fault
	}
	t.Writes = append(t.Writes, WriteRec{Seam: "api", Verb: verb, Kind: gvk.Kind, Key: key, Obj: obj, Err: err, Fault: f, Step: c.sim.step, At: c.sim.Now()})
}

// write wraps the common fault handling of mutating calls. exec performs the operation on the
// server and returns the resulting object.
func (c *Client) write(ctx context.Context, verb string, obj client.Object, exec func(t *Task) (client.Object, error)) error {
	s := c.sim
	gvk := s.store.GVK(obj)
	key := keyOf(obj).String()
	call := s.Enter(ctx, "api", verb, gvk.Kind, key, true)
	t := TaskFrom(ctx)
	if call != nil {
		switch call.res.fault {
		case FErrBefore:
			err := injectedErr(call, gvk)
			c.record(t, call, verb, gvk, key, nil, err)
			s.Leave(call)
			return err
		case FConflict:
			err := apierrors.NewConflict(gr(gvk), obj.GetName(), fmt.Errorf("sim: injected conflict"))
			c.record(t, call, verb, gvk, key, nil, err)
			s.Leave(call)
			return err
		}
	}
	res, err := exec(t)
	if call != nil && (call.res.fault == FErrAfter || call.res.fault == FCrashAfter) && err == nil {
		if call.res.fault == FCrashAfter {
			s.pendingCrash = true
			call.res.slow = true
		}
		err = context.DeadlineExceeded
		c.record(t, call, verb, gvk, key, res, err)
		s.Leave(call)
		return err
	}
	c.record(t, call, verb, gvk, key, res, err)
	if err == nil && res != nil {
		copyInto(obj, res)
	}
	s.Leave(call)
	return err
}

func (c *Client) Create(ctx context.Context, obj client.Object, _ ...client.CreateOption) error {
	return c.write(ctx, "create", obj, func(t *Task) (client.Object, error) { return c.sim.store.Create(obj, t) })
}

func (c *Client) Update(ctx context.Context, obj client.Object, _ ...client.UpdateOption) error {
	return c.write(ctx, "update", obj, func(t *Task) (client.Object, error) { return c.sim.store.Update(obj, "", t) })
}

func (c *Client) Patch(ctx context.Context, obj client.Object, patch client.Patch, _ ...client.PatchOption) error {
	data, err := patch.Data(obj)
	if err != nil {
		return err
	}
	return c.write(ctx, "patch", obj, func(t *Task) (client.Object, error) {
		return c.sim.store.Patch(obj, patch.Type(), data, "", t)
	})
}

func (c *Client) Delete(ctx context.Context, obj client.Object, opts ...client.DeleteOption) error {
	do := (&client.DeleteOptions{}).ApplyOptions(opts)
	o := DeleteOpts{Grace: do.GracePeriodSeconds}
	if do.Preconditions != nil {
		o.UID = do.Preconditions.UID
		o.RV = do.Preconditions.ResourceVersion
	}
	verb := "delete"
	if _, ok := obj.(*corev1.Pod); ok && do.GracePeriodSeconds != nil {
		verb = fmt.Sprintf("delete[grace=%d]", *do.GracePeriodSeconds)
	}
	cp := obj.DeepCopyObject().(client.Object)
	return c.write(ctx, verb, cp, func(t *Task) (client.Object, error) {
		if t != nil {
			t.Notes["lastDeleteGrace"] = do.GracePeriodSeconds
		}
		return nil, c.sim.store.Delete(obj, o, t)
	})
}

func (c *Client) DeleteAllOf(ctx context.Context, obj client.Object, opts ...client.DeleteAllOfOption) error {
	return fmt.Errorf("sim: DeleteAllOf not supported")
}

func (c *Client) Apply(ctx context.Context, obj runtime.ApplyConfiguration, opts ...client.ApplyOption) error {
	return fmt.Errorf("sim: Apply not supported")
}

func (c *Client) Status() client.SubResourceWriter { return &subWriter{c: c, sub: "status"} }

func (c *Client) SubResource(sub string) client.SubResourceClient {
	return &subWriter{c: c, sub: sub}
}

type subWriter struct {
	c   *Client
	sub string
}

func (w *subWriter) Get(ctx context.Context, obj client.Object, subResource client.Object, opts ...client.SubResourceGetOption) error {
	return fmt.Errorf("sim: subresource get not supported")
}

func (w *subWriter) Create(ctx context.Context, obj client.Object, sub client.Object, _ ...client.SubResourceCreateOption) error {
	if w.sub != "eviction" {
		return fmt.Errorf("sim: subresource create %q not supported", w.sub)
	}
	pod, ok := obj.(*corev1.Pod)
	if !ok {
		return fmt.Errorf("sim: eviction of %T", obj)
	}
	ev, _ := sub.(*policyv1.Eviction)
	cp := pod.DeepCopy()
	return w.c.write(ctx, "evict", cp, func(t *Task) (client.Object, error) {
		return nil, w.c.sim.store.Evict(pod, ev, t)
	})
}

func (w *subWriter) Update(ctx context.Context, obj client.Object, _ ...client.SubResourceUpdateOption) error {
	return w.c.write(ctx, w.sub+"-update", obj, func(t *Task) (client.Object, error) { return w.c.sim.store.Update(obj, w.sub, t) })
}

func (w *subWriter) Patch(ctx context.Context, obj client.Object, patch client.Patch, _ ...client.SubResourcePatchOption) error {
	data, err := patch.Data(obj)
	if err != nil {
		return err
	}
	return w.c.write(ctx, w.sub+"-patch", obj, func(t *Task) (client.Object, error) {
		return w.c.sim.store.Patch(obj, patch.Type(), data, w.sub, t)
	})
}

func (w *subWriter) Apply(ctx context.Context, obj runtime.ApplyConfiguration, opts ...client.SubResourceApplyOption) error {
	return fmt.Errorf("sim: Apply not supported")
}

// EnvClient returns a context-free client for environment actors and the simulator itself:
// no parking, no faults. Reads still come from the cache; use Store for server truth.
func (s *Sim) EnvCtx() context.Context { return s.baseCtx }

var _ = types.NamespacedName{}
