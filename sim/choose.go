package sim

import "os"

// Choice source: one PRNG stream seeded from VERIF_SEED decides everything. Every decision
// is recorded as (kind, n, picked); a recorded trace can be replayed, and a replayed trace may be
// mutated by the minimiser (values past the end, or out of range, fall back to 0 which is always
// the benign default: no fault, continue the current task, FIFO delivery).

var debugChoices = os.Getenv("VERIF_DEBUG_CHOICES") != ""

type Choice struct {
	K string `json:"k"`
	N int    `json:"n"`
	V int    `json:"v"`
}

type Chooser struct {
	state  uint64
	replay []int
	useRep bool
	pos    int
	Trace  []Choice
	// counts per kind (evidence)
	Counts map[string]int
}

func NewChooser(seed uint64) *Chooser {
	return &Chooser{state: seed*0x9e3779b97f4a7c15 + 0x1234567, Counts: map[string]int{}}
}

func NewReplayChooser(seed uint64, vals []int) *Chooser {
	c := NewChooser(seed)
	c.replay = vals
	c.useRep = true
	return c
}

func (c *Chooser) next() uint64 {
	c.state += 0x9e3779b97f4a7c15
	z := c.state
	z = (z ^ (z >> 30)) * 0xbf58476d1ce4e5b9
	z = (z ^ (z >> 27)) * 0x94d049bb133111eb
	return z ^ (z >> 31)
}

// Pick returns a value in [0,n). n<=1 consumes nothing and returns 0.
func (c *Chooser) Pick(kind string, n int) int {
	if n <= 1 {
		return 0
	}
	var v int
	if c.useRep {
		if c.pos < len(c.replay) {
			v = c.replay[c.pos]
			if v < 0 || v >= n {
				v = 0
			}
		}
		c.pos++
	} else {
		v = int(c.next() % uint64(n))
	}
	c.Trace = append(c.Trace, Choice{kind, n, v})
	c.Counts[kind]++
	if debugChoices {
		println("CHOICE", len(c.Trace), kind, n, v)
	}
	return v
}

// Chance returns true with probability p (per mille resolution). The default (0) is false.
func (c *Chooser) Chance(kind string, p float64) bool {
	if p <= 0 {
		return false
	}
	t := int(p * 1000)
	if t < 1 {
		t = 1
	}
	if t > 1000 {
		t = 1000
	}
	v := c.Pick(kind, 1000)
	return v >= 1000-t
}

// Weighted picks an index with the given non-negative weights; index of the first positive
// weight is the default.
func (c *Chooser) Weighted(kind string, w []int) int {
	tot := 0
	for _, x := range w {
		tot += x
	}
	if tot <= 0 {
		return 0
	}
	v := c.Pick(kind, tot)
	for i, x := range w {
		if v < x {
			return i
		}
		v -= x
	}
	return len(w) - 1
}

// Range returns lo + Pick(hi-lo+1).
func (c *Chooser) Range(kind string, lo, hi int) int {
	if hi <= lo {
		return lo
	}
	return lo + c.Pick(kind, hi-lo+1)
}

func (c *Chooser) Values() []int {
	out := make([]int, len(c.Trace))
	for i, ch := range c.Trace {
		out[i] = ch.V
	}
	return out
}
