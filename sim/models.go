package sim

// Small executable reference models, independent of pkg/scheduling and
// pkg/controllers/provisioning/scheduling (DESIGN 5.1).

import (
	"fmt"
	"sort"
	"strings"

	corev1 "k8s.io/api/core/v1"
	"k8s.io/apimachinery/pkg/api/resource"
	"k8s.io/component-helpers/scheduling/corev1/nodeaffinity"

	v1 "sigs.k8s.io/karpenter/pkg/apis/v1"
	"sigs.k8s.io/karpenter/pkg/cloudprovider"
)

// ModelNode is what kube-scheduler would look at.
type ModelNode struct {
	Name        string
	Labels      map[string]string
	Taints      []corev1.Taint
	Allocatable corev1.ResourceList
	Pods        []*corev1.Pod // pods already there (bound or assigned)
	VolumeLimit map[string]int
	Meta        string
}

func (n *ModelNode) asNode() *corev1.Node {
	node := &corev1.Node{}
	node.Name = n.Name
	node.Labels = n.Labels
	return node
}

// podRequests: max(sum of containers, max of init containers) + overhead, plus one pod.
func podRequests(p *corev1.Pod) corev1.ResourceList {
	out := corev1.ResourceList{}
	for _, c := range p.Spec.Containers {
		for k, v := range c.Resources.Requests {
			q := out[k]
			q.Add(v)
			out[k] = q
		}
	}
	for _, c := range p.Spec.InitContainers {
		for k, v := range c.Resources.Requests {
			if q, ok := out[k]; !ok || v.Cmp(q) > 0 {
				out[k] = v.DeepCopy()
			}
		}
	}
	for k, v := range p.Spec.Overhead {
		q := out[k]
		q.Add(v)
		out[k] = q
	}
	out[corev1.ResourcePods] = *resource.NewQuantity(1, resource.DecimalSI)
	return out
}

func addRL(a, b corev1.ResourceList) corev1.ResourceList {
	out := corev1.ResourceList{}
	for k, v := range a {
		out[k] = v.DeepCopy()
	}
	for k, v := range b {
		q := out[k]
		q.Add(v)
		out[k] = q
	}
	return out
}

// fitsRL: every requested resource is within the allocatable (missing allocatable = 0).
func fitsRL(req, alloc corev1.ResourceList) (corev1.ResourceName, bool) {
	keys := make([]string, 0, len(req))
	for k := range req {
		keys = append(keys, string(k))
	}
	sort.Strings(keys)
	for _, k := range keys {
		q := req[corev1.ResourceName(k)]
		if q.IsZero() {
			continue
		}
		a := alloc[corev1.ResourceName(k)]
		if q.Cmp(a) > 0 {
			return corev1.ResourceName(k), false
		}
	}
	return "", true
}

type hostPort struct {
	ip    string
	port  int32
	proto corev1.Protocol
}

func hostPorts(p *corev1.Pod) []hostPort {
	var out []hostPort
	for _, c := range p.Spec.Containers {
		for _, cp := range c.Ports {
			if cp.HostPort == 0 {
				continue
			}
			ip := cp.HostIP
			if ip == "" {
				ip = "0.0.0.0"
			}
			proto := cp.Protocol
			if proto == "" {
				proto = corev1.ProtocolTCP
			}
			out = append(out, hostPort{ip, cp.HostPort, proto})
		}
	}
	return out
}

func portsConflict(a, b hostPort) bool {
	if a.port != b.port || a.proto != b.proto {
		return false
	}
	return a.ip == b.ip || a.ip == "0.0.0.0" || b.ip == "0.0.0.0" || a.ip == "::" || b.ip == "::"
}

func untolerated(taints []corev1.Taint, pod *corev1.Pod) *corev1.Taint {
	for i := range taints {
		t := taints[i]
		if t.Effect != corev1.TaintEffectNoSchedule && t.Effect != corev1.TaintEffectNoExecute {
			continue
		}
		ok := false
		for _, tol := range pod.Spec.Tolerations {
			if tolerates(tol, t) {
				ok = true
				break
			}
		}
		if !ok {
			return &t
		}
	}
	return nil
}

// StorageView resolves a pod's volumes for the admissibility model.
type StorageView struct {
	PVCs map[string]*corev1.PersistentVolumeClaim // ns/name
	PVs  map[string]*corev1.PersistentVolume
	SCs  map[string]allowedZones
}

type allowedZones struct {
	provisioner string
	zones       []string // nil = any
}

// volumeZones returns, for each volume of the pod that constrains the zone, the set of allowed zones.
func (sv *StorageView) volumeZones(pod *corev1.Pod) [][]string {
	if sv == nil {
		return nil
	}
	var out [][]string
	for _, v := range pod.Spec.Volumes {
		if v.PersistentVolumeClaim == nil {
			continue
		}
		pvc := sv.PVCs[pod.Namespace+"/"+v.PersistentVolumeClaim.ClaimName]
		if pvc == nil {
			continue
		}
		if pvc.Spec.VolumeName != "" {
			pv := sv.PVs[pvc.Spec.VolumeName]
			if pv == nil || pv.Spec.NodeAffinity == nil || pv.Spec.NodeAffinity.Required == nil {
				continue
			}
			var zones []string
			for _, term := range pv.Spec.NodeAffinity.Required.NodeSelectorTerms {
				for _, e := range term.MatchExpressions {
					if e.Key == corev1.LabelTopologyZone && e.Operator == corev1.NodeSelectorOpIn {
						zones = append(zones, e.Values...)
					}
				}
			}
			if zones != nil {
				out = append(out, zones)
			}
			continue
		}
		if pvc.Spec.StorageClassName != nil {
			if sc, ok := sv.SCs[*pvc.Spec.StorageClassName]; ok && sc.zones != nil {
				out = append(out, sc.zones)
			}
		}
	}
	return out
}

// Admit: would kube-scheduler's filters (node affinity/selector, taints, resources, host ports,
// volume zones) admit the pod on the node next to node.Pods? Returns "" or the reason.
func Admit(pod *corev1.Pod, n *ModelNode, sv *StorageView) string {
	if ok, err := nodeaffinity.GetRequiredNodeAffinity(pod).Match(n.asNode()); err != nil || !ok {
		return fmt.Sprintf("node selector / required node affinity does not match node labels %v", relevantLabels(pod, n.Labels))
	}
	if t := untolerated(n.Taints, pod); t != nil {
		return fmt.Sprintf("taint %s=%s:%s not tolerated", t.Key, t.Value, t.Effect)
	}
	total := podRequests(pod)
	for _, q := range n.Pods {
		if q.UID == pod.UID {
			continue
		}
		total = addRL(total, podRequests(q))
	}
	if r, ok := fitsRL(total, n.Allocatable); !ok {
		tq, aq := total[r], n.Allocatable[r]
		return fmt.Sprintf("resource %s: requests %s exceed allocatable %s", r, tq.String(), aq.String())
	}
	mine := hostPorts(pod)
	for _, q := range n.Pods {
		if q.UID == pod.UID {
			continue
		}
		for _, a := range hostPorts(q) {
			for _, b := range mine {
				if portsConflict(a, b) {
					return fmt.Sprintf("host port %d/%s conflicts with pod %s", b.port, b.proto, q.Name)
				}
			}
		}
	}
	zone := n.Labels[corev1.LabelTopologyZone]
	for _, zs := range sv.volumeZones(pod) {
		found := false
		for _, z := range zs {
			if z == zone {
				found = true
			}
		}
		if !found {
			return fmt.Sprintf("volume restricted to zones %v but node is in %q", zs, zone)
		}
	}
	return ""
}

func relevantLabels(pod *corev1.Pod, labels map[string]string) map[string]string {
	out := map[string]string{}
	for k := range pod.Spec.NodeSelector {
		out[k] = labels[k]
	}
	if a := pod.Spec.Affinity; a != nil && a.NodeAffinity != nil && a.NodeAffinity.RequiredDuringSchedulingIgnoredDuringExecution != nil {
		for _, t := range a.NodeAffinity.RequiredDuringSchedulingIgnoredDuringExecution.NodeSelectorTerms {
			for _, e := range t.MatchExpressions {
				out[e.Key] = labels[e.Key]
			}
		}
	}
	return out
}

// HypotheticalNode builds the node a NodeClaim would become when launched as (it, of): the same
// labelling the simulated provider applies at launch.
func HypotheticalNode(nc *v1.NodeClaim, it *cloudprovider.InstanceType, of *cloudprovider.Offering) *ModelNode {
	labels := map[string]string{}
	for key, req := range it.Requirements {
		if req.Operator() == corev1.NodeSelectorOpIn && req.Len() == 1 {
			labels[key] = req.Values()[0]
		}
	}
	for _, req := range of.Requirements {
		labels[req.Key] = req.Any()
	}
	for k, v := range nc.Labels {
		labels[k] = v
	}
	labels[corev1.LabelHostname] = "hypothetical-" + nc.Name
	labels[v1.NodeRegisteredLabelKey] = "true"
	labels[v1.NodeInitializedLabelKey] = "true"
	alloc := corev1.ResourceList{}
	for k, v := range it.Allocatable() {
		alloc[k] = v.DeepCopy()
	}
	return &ModelNode{Name: labels[corev1.LabelHostname], Labels: labels, Taints: append([]corev1.Taint(nil), nc.Spec.Taints...), Allocatable: alloc,
		Meta: fmt.Sprintf("%s/%s/%s", it.Name, of.Zone(), of.CapacityType())}
}

// ncAllows: does the requirement list written on the NodeClaim allow value v for key?
func ncAllows(nc *v1.NodeClaim, key, v string) bool {
	for _, r := range nc.Spec.Requirements {
		if r.Key != key {
			continue
		}
		in := false
		for _, x := range r.Values {
			if x == v {
				in = true
			}
		}
		switch r.Operator {
		case corev1.NodeSelectorOpIn:
			if !in {
				return false
			}
		case corev1.NodeSelectorOpNotIn:
			if in {
				return false
			}
		case corev1.NodeSelectorOpExists:
			if v == "" {
				return false
			}
		case corev1.NodeSelectorOpDoesNotExist:
			if v != "" {
				return false
			}
		}
	}
	return true
}

// permittedOfferings: available offerings of the type that the written requirements allow (zone,
// capacity type, reservation id), independent of pkg/scheduling.
func permittedOfferings(nc *v1.NodeClaim, it *cloudprovider.InstanceType) []*cloudprovider.Offering {
	var out []*cloudprovider.Offering
	for _, of := range it.Offerings {
		if !of.Available {
			continue
		}
		ok := true
		for _, req := range of.Requirements {
			if !ncAllows(nc, req.Key, req.Any()) {
				ok = false
			}
		}
		if ok {
			out = append(out, of)
		}
	}
	return out
}

func namedInstanceTypes(nc *v1.NodeClaim) []string {
	for _, r := range nc.Spec.Requirements {
		if r.Key == corev1.LabelInstanceTypeStable && r.Operator == corev1.NodeSelectorOpIn {
			return r.Values
		}
	}
	return nil
}

// daemonOverheadCertain: requests of daemonsets whose pod would certainly be admitted on the node
// (affinity/selector match on the node's labels, taints tolerated). Startup taints are ignored
// because they disappear.
func daemonPodsFor(n *ModelNode, daemons []*corev1.Pod) []*corev1.Pod {
	var out []*corev1.Pod
	for _, d := range daemons {
		if ok, err := nodeaffinity.GetRequiredNodeAffinity(d).Match(n.asNode()); err != nil || !ok {
			continue
		}
		if untolerated(n.Taints, d) != nil {
			continue
		}
		out = append(out, d)
	}
	return out
}

func podIsSimple(p *corev1.Pod) bool {
	if len(p.Spec.TopologySpreadConstraints) > 0 {
		return false
	}
	if a := p.Spec.Affinity; a != nil {
		if a.PodAffinity != nil || a.PodAntiAffinity != nil {
			return false
		}
		if a.NodeAffinity != nil && len(a.NodeAffinity.PreferredDuringSchedulingIgnoredDuringExecution) > 0 {
			return false
		}
	}
	if len(p.Spec.Volumes) > 0 {
		return false
	}
	return true
}

func rlStr(rl corev1.ResourceList) string { return rlString(rl) }

var _ = strings.Join
