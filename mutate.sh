#!/bin/bash
# usage: mutate.sh <property> <sed-expression> <file-relative-to-repo>   -- applies a one-line mutation to /repo, runs the quick check, reverts.
set -u
prop=$1; expr=$2; file=$3
cd /repo
cp "$file" /tmp/mutate.bak
sed -i "$expr" "$file"
if git diff --quiet -- "$file"; then echo "MUTATION DID NOT APPLY"; exit 3; fi
git diff --stat -- "$file" | tail -1
( cd /verif && VERIF_SEED=${VERIF_SEED:-1} ./check "$prop" quick 2>&1 | grep -E "VIOLATION|KNOWN|FRAMEWORK|quick:|^  C" | cut -c1-400 | head -8 )
cp /tmp/mutate.bak "$file"
git diff --quiet -- "$file" && echo reverted
