#!/usr/bin/env python3
"""Regenerates MANIFEST.json from the table below (kept next to the checks so that they stay in sync)."""
import json, os
ROOT = os.path.dirname(os.path.abspath(__file__))
CHECKS = {
 "C11": dict(level="exploration", design="6 C11",
   text="Seeded exploration: thousands of simulated runs in which random Node/NodeClaim/Pod/DaemonSet histories are applied to a simulated API server while the REAL state informers and state.Cluster run under seeded delivery orders, cache lag and reconcile interleavings; at every quiescent point the incremental state is compared with a fresh state.Cluster built by the same real informers from the API objects. Sampling, not proof; the right level because the property quantifies over unbounded histories and delivery orders.",
   note="Trusted: simulator stubs for API server, cache, work queues (sim/store.go, cache.go, manager.go); the from-scratch path of state.Cluster itself (differential oracle). Generator restrictions listed in DESIGN.md 6/C11.",
   technique="deterministic simulation (synctest bubble, seeded scheduler) + differential oracle vs fresh recomputation"),
}
NA = [
 ("C12", "pure function of operator/value inputs; no schedule, clock, fault or history can influence it (DESIGN.md 6/C12)"),
 ("C13", "pure serialisation function of the scheduler's output; its consequences are decided under C01/C04/C15 (DESIGN.md 6/C13)"),
 ("C17", "per-pass function of its inputs; DRA code is off by default and not run in the simulation (DESIGN.md 6/C17)"),
]
NOT_BUILT = {}
def main():
    hooks = json.load(open(os.path.join(ROOT, "hooks.json")))
    m = {"version": 1, "setup_cmd": "./setup.sh",
         "hooks": {"guard": "verif", "enable": "go test -c -tags verif (build.sh)", "baseline_off_cmd": hooks["baseline_off_cmd"],
                   "source_commits": hooks["source_commits"], "add_only": True},
         "engines": [{"name": "sim", "path": "sim/", "serves_properties": sorted(CHECKS), "kind_free_text": "deterministic simulation with fault injection: real Karpenter controllers in one testing/synctest bubble per run, seeded scheduler over parked seam calls, simulated API server / cache / provider / clock, choice-trace replay and delta-debugging minimiser"}],
         "checks": [], "not_applicable": [], "notes": "See DESIGN.md. ./check selftest proves determinism of the simulator (exit 2 on divergence)."}
    for pid in sorted(CHECKS):
        c = CHECKS[pid]
        m["checks"].append({"property_id": pid, "quick_cmd": "./check %s quick" % pid, "thorough_cmd": "./check %s thorough" % pid,
            "evidence_file": "evidence/%s.json" % pid, "replay_cmd_template": "./check %s --replay {path}" % pid, "engine": "sim",
            "level_claimed": {"category": c["level"], "text": c["text"], "design_ref": c["design"]}, "level_note": c["note"], "technique": c["technique"]})
    for pid, why in NA:
        m["not_applicable"].append({"property_id": pid, "reason": why})
    import json as j
    props = [j.loads(l)["id"] for l in open(os.path.join(ROOT, "properties.jsonl"))]
    for pid in props:
        if pid not in CHECKS and pid not in dict(NA):
            m["not_applicable"].append({"property_id": pid, "reason": NOT_BUILT.get(pid, "not built yet: the simulation profile for this property is still under construction (not a claim that the technique cannot apply)")})
    json.dump(m, open(os.path.join(ROOT, "MANIFEST.json"), "w"), indent=1)
if __name__ == "__main__":
    main()
