#!/usr/bin/env python3
"""Regenerates MANIFEST.json from the table below (kept next to the checks so that they stay in sync)."""
import json, os
ROOT = os.path.dirname(os.path.abspath(__file__))
CHECKS = {
 "C01": dict(level="exploration", design="6 C01",
   text="Seeded exploration in the `prov` profile: the REAL provisioner, scheduler, cluster state, lifecycle and NodePool controllers run against generated catalogs, NodePools (requirements, taints, labels, limits, weights), daemonsets and pod waves (node selectors, OR-ed required affinity, preferences, tolerations, host ports, init containers, extended resources) under both preference and minValues policies, 1-8 candidate-evaluation workers whose interleaving is seeded through hook H1, seeded map orders, a provider that launches ANY permitted type (worst-case biased), nodes registering at seeded times, offerings flipping, faults and restarts. For every scheduling pass that took its snapshot with caches caught up, every placement announced by a Nominated event or a written NodeClaim is checked against an independent admissibility model (upstream node-affinity matcher, own taint / resource / host-port / volume-zone logic): existing and in-flight targets must admit the pod next to what is there; for every instance type a written NodeClaim names some available compatible offering must admit all its pods plus daemon overhead; the node actually launched must admit them too.",
   note="Trusted: simulator stubs and the admissibility model (sim/models.go); CSI volume limits are not generated yet. Passes whose snapshot was taken while informer events were undelivered are counted as unchecked (rule R3).",
   technique="deterministic simulation (seeded worker interleavings via H1, seeded map order, adversarial launch choice) + independent admissibility model"),
 "C03": dict(level="exploration", design="6 C03",
   text="Seeded exploration in the `prov` profile (dynamic pools): NodePools with cpu / memory limits close to demand, pod waves over many rounds, provider biased to the largest permitted type, offerings flipping, faults and restarts. At every provider launch and at the end of the run the summed capacity of the pool's launched non-deleting instances (provider ground truth) must not exceed the limits (skipped for pools whose limits the user edited during the run). The static-pool clauses are decided in the `static` profile when built.",
   note="Trusted: simulator stubs; capacity is taken from the provider's instances, not from Karpenter's bookkeeping.",
   technique="deterministic simulation with adversarial (worst-case) launch choice; conservation check on provider ground truth"),
 "C04": dict(level="exploration", design="6 C04",
   text="Seeded exploration in the `prov` profile: passes run at every point of the node lifecycle (created, launched, node not yet appeared, registered, initialized, extended resources still zero, startup taints present). For every simple pod that a caught-up pass maps to a new NodeClaim, no existing node and no launched, non-deleting, unmarked NodeClaim may admit it (independent model, counting every daemonset that could still land there) next to everything assigned there by the end of the pass. Gate clause: no pass takes its snapshot while a NodeClaim whose creation was acknowledged to this incarnation is unlaunched and not deleting.",
   note="Trusted: simulator stubs and the admissibility model. Simple = no inter-pod constraint, no preference, no volume.",
   technique="deterministic simulation + independent admissibility model (sound in both directions, incomplete in the daemon-overhead gap)"),
 "C15": dict(level="exploration", design="6 C15",
   text="Seeded exploration in the `prov` profile: NodeClaims created by the real provisioner from generated NodePools are launched as whatever the provider picks; pools receive non-drifting edits (weight, limits, budgets) and drifting edits (template annotation) at seeded times; the real hash and nodeclaim.disruption controllers run. A NodeClaim of a pool that only saw non-drifting edits must never become Drifted=True. The for-all-templates hash clause is only sampled by this edit catalogue.",
   note="Trusted: simulator stubs. Provider IsDrifted answers \"\" in these runs. The positive clause (drift reported within two polls after a drifting edit) is observed as a probe, not yet enforced.",
   technique="deterministic simulation with adversarial launch choice; invariant on the Drifted condition"),
 "C19": dict(level="exploration", design="6 C19",
   text="Seeded exploration in the `prov` profile with 1-8 template-evaluation workers interleaved through hook H1: for every simple pod that opens a NodeClaim in a caught-up pass, every ready dynamic pool of higher weight must be infeasible for that pod alone under the independent model (some type of the pool compatible with pool and pod requirements, available offering, tolerated taints, requests plus every daemonset that could land). Checked only in runs without limits, minValues or reserved offerings. The price/truncation clause is a pure function and is not claimed.",
   note="Trusted: simulator stubs and the admissibility model.",
   technique="deterministic simulation with seeded worker interleavings (H1) + independent feasibility model"),
 "C09": dict(level="fault_enumeration", design="6 C09",
   text="Single-fault sweep plus seeded exploration in the `term` profile (and the orphan clause also in `life`): nodes brought up by the real lifecycle controller carry generated pods, PDBs and volume attachments and are then deleted by users, expiry and repair while the REAL node.termination controller, terminator, eviction queue and NodeClaim finalizer run. Every seam call of the baselines is re-run with one fault (error-before, lost response, crash-after); further runs add random API/provider faults, slow or failing provider deletes, stuck pods and attachments, vanishing instances, restarts and clock jumps. At each finalizer-removing write the oracle checks, on what the removing task read plus provider ground truth: disruption taint present, no drainable pod in its pod list, no blocking attachment unless the deadline passed, provider answered NotFound and the instance is really gone (fast path only for NotReady nodes); for NodeClaims: no Node listed if registered and no acknowledged instance alive; end of run: no orphan instance.",
   note="Trusted: simulator stubs (API server incl. graceful pod deletion and eviction subresource, provider with asynchronous termination, kubelet). Instances whose Create response was lost or whose creating incarnation crashed are counted, not flagged.",
   technique="deterministic simulation + single-fault sweep over every seam call; read-set oracle at finalizer removal vs provider ground truth"),
 "C10": dict(level="exploration", design="6 C10",
   text="Seeded exploration in the `term` profile: pod mixes over the four priority tiers, owners, grace periods 0s-2h, do-not-disrupt (bool and durations), disruption-taint tolerations, terminating and stuck pods; PDBs whose budget changes during the drain; NodeClaims with and without terminationGracePeriod; deadlines moved earlier and later while pods sit in the eviction queue; drain passes and queue reconciles interleaved; clock jumps across deadline - grace. Oracles at the seams with own definitions: removals are evictions, or Deletes with grace >= 1 on a node that has a deadline and only once the pod's grace would pass the earliest deadline it was queued under; no eviction of do-not-disrupt / static / tolerating pods (judged on the version the queue read); tier order judged on the pod list of the drain pass that enqueued the pod; deadline never extended while queued.",
   note="Trusted: simulator stubs; queue membership is observed through Queue.Has() after every step. After a restart or a completed-and-re-added queue entry the deadline legitimately restarts from the current annotation.",
   technique="deterministic simulation, seeded interleaving of drain passes and eviction-queue reconciles, read-set oracles at eviction/Delete seams"),
 "C11": dict(level="exploration", design="6 C11",
   text="Seeded exploration: thousands of simulated runs in which random Node/NodeClaim/Pod/DaemonSet histories are applied to a simulated API server while the REAL state informers and state.Cluster run under seeded delivery orders, cache lag and reconcile interleavings; at every quiescent point the incremental state is compared with a fresh state.Cluster built by the same real informers from the API objects. Sampling, not proof; the right level because the property quantifies over unbounded histories and delivery orders.",
   note="Trusted: simulator stubs for API server, cache, work queues (sim/store.go, cache.go, manager.go); the from-scratch path of state.Cluster itself (differential oracle). Generator restrictions listed in DESIGN.md 6/C11.",
   technique="deterministic simulation (synctest bubble, seeded scheduler) + differential oracle vs fresh recomputation"),
 "C14": dict(level="fault_enumeration", design="6 C14",
   text="Single-fault sweep plus seeded exploration: the REAL nodeclaim.lifecycle controller (launch, registration, initialization, liveness, finalize) runs against a simulated provider, kubelet and API server. For seeded fault-free baselines every fault-eligible API / provider call k is re-run with exactly one fault at k in modes error-before, error-after (lost response) and crash-after; thousands of further runs draw random fault mixes, cache lag, slow responses, restarts and clock jumps. Oracles at the seams: <=1 acknowledged provider Create per UID per incarnation, finalizer on the server object at Create, Launched/Registered/Initialized only forward and each justified by the Node version the deciding task read, capacity error => Delete.",
   note="Trusted: simulator stubs (API server, cache, provider, kubelet, clock). Preemption happens at seam calls only. Duplicate creates across a crash are counted, not flagged (the property's wording).",
   technique="deterministic simulation + single-fault sweep over every seam call (err-before / err-after / crash-after)"),
 "C16": dict(level="exploration", design="6 C16",
   text="Seeded exploration in the `life` profile: expiration, NodeClaim garbage collection and the liveness check (real controllers) run while instances vanish, provider listings lag, nodes flap Ready, the clock jumps onto thresholds and API / provider reads fail. Every Delete(NodeClaim) is attributed to its controller and judged against what that task was actually told (read-set rule): expiry time reached, instance absent from the listing it received AND node lookup succeeded with no Ready node, launch/registration timeout elapsed. The node-repair clause (toleration elapsed, 20% breaker on the node list the task received) is decided in the `term` profile, which this check also runs.",
   note="Trusted: simulator stubs.",
   technique="deterministic simulation, seeded fault injection on reads, read-set oracle at the Delete seam"),
 "C20": dict(level="exploration", design="6 C20",
   text="Seeded exploration: real Registration / Liveness reconcilers and the registration-health controller record launch outcomes for 1-2 pools over 20-120 simulated minutes with nodes that never register, resets by NodePool edits, restarts and re-hydration. Hook H2 reports each recorded outcome; a 4-slot window model fed with that order is compared with State.Status, with State.DryRun for both next outcomes, and with the NodeRegistrationHealthy value the reconcile wrote. Probe window-wrapped must be hit.",
   note="Trusted: simulator stubs; hook H2 (verif tag) reports outcomes. Preemption between DryRun and Update exists only where a seam call lies between them.",
   technique="deterministic simulation + sequential reference model (window of last four outcomes)"),
}
NA = [
 ("C12", "pure function of operator/value inputs; no schedule, clock, fault or history can influence it (DESIGN.md 6/C12)"),
 ("C13", "pure serialisation function of the scheduler's output; its consequences are decided under C01/C04/C15 (DESIGN.md 6/C13)"),
 ("C17", "per-pass function of its inputs; DRA code is off by default and not run in the simulation (DESIGN.md 6/C17)"),
]
NOT_BUILT = {}
def main():
    hooks = json.load(open(os.path.join(ROOT, "hooks.json")))
    m = {"version": 1, "setup_cmd": "./setup.sh",
         "hooks": {"guard": "verif", "enable": "go test -c -tags verif (build.sh)", "baseline_off_cmd": hooks["baseline_off_cmd"],
                   "source_commits": hooks["source_commits"], "add_only": True},
         "engines": [{"name": "sim", "path": "sim/", "serves_properties": sorted(CHECKS), "kind_free_text": "deterministic simulation with fault injection: real Karpenter controllers in one testing/synctest bubble per run, seeded scheduler over parked seam calls, simulated API server / cache / provider / clock, choice-trace replay and delta-debugging minimiser"}],
         "checks": [], "not_applicable": [], "notes": "See DESIGN.md. ./check selftest proves determinism of the simulator (exit 2 on divergence)."}
    for pid in sorted(CHECKS):
        c = CHECKS[pid]
        m["checks"].append({"property_id": pid, "quick_cmd": "./check %s quick" % pid, "thorough_cmd": "./check %s thorough" % pid,
            "evidence_file": "evidence/%s.json" % pid, "replay_cmd_template": "./check %s --replay {path}" % pid, "engine": "sim",
            "level_claimed": {"category": c["level"], "text": c["text"], "design_ref": c["design"]}, "level_note": c["note"], "technique": c["technique"]})
    for pid, why in NA:
        m["not_applicable"].append({"property_id": pid, "reason": why})
    import json as j
    props = [j.loads(l)["id"] for l in open(os.path.join(ROOT, "properties.jsonl"))]
    for pid in props:
        if pid not in CHECKS and pid not in dict(NA):
            m["not_applicable"].append({"property_id": pid, "reason": NOT_BUILT.get(pid, "not built yet: the simulation profile for this property is still under construction (not a claim that the technique cannot apply)")})
    json.dump(m, open(os.path.join(ROOT, "MANIFEST.json"), "w"), indent=1)
if __name__ == "__main__":
    main()
