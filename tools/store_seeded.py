#!/usr/bin/env python3
"""Stores a confirmed seeded change under /verif/seeded/<id>/.
usage: store_seeded.py <id> <property> <worktree> <pkg dir> <TestName> <needs text> <summary text>"""
import json, os, shutil, sys
sid, prop, wt, pkg, test, needs, summary = sys.argv[1:8]
d = os.path.join(os.path.dirname(os.path.abspath(__file__)), "..", "seeded", sid)
os.makedirs(d, exist_ok=True)
shutil.copy(os.path.join(wt, "seeded_patch.diff"), os.path.join(d, "patch.diff"))
shutil.copy(os.path.join(wt, pkg, "zz_seeded_demo_test.go"), os.path.join(d, "zz_seeded_demo_test.go"))
meta = {
    "id": sid, "breaks_property": prop, "summary": summary, "needs_to_manifest": needs,
    "demo": {"file": "zz_seeded_demo_test.go", "package_dir": pkg, "test": test,
             "run": "cp zz_seeded_demo_test.go <worktree>/%s/ && go test -mod=mod -vet=off -count=1 -run '^%s$' ./%s" % (pkg, test, pkg)},
    "confirmed": {"how": "tools/confirm_seeded.sh in a scratch worktree of /repo at HEAD: demo passes unchanged, tree builds with the change, demo fails with the change, 45/45 baseline tests pass with the change",
                  "result": "confirmed"},
    "checks": {},
}
p = os.path.join(d, "meta.json")
if os.path.exists(p):
    old = json.load(open(p)); meta["checks"] = old.get("checks", {})
json.dump(meta, open(p, "w"), indent=1)
print("stored", d)
