#!/bin/bash
# usage: tools/replaylog.sh <replay.json>  -- replays a file and prints the event log (one line per event)
export GOFLAGS=-mod=mod GOPROXY=off GOSUMDB=off GOTOOLCHAIN=local
cd /verif
VERIF_MODE=replay VERIF_REPLAY=$1 ./bin/sim.test -test.run TestSim -test.timeout 1h 2>/tmp/replay.err | python3 -c "
import json,sys
for l in sys.stdin:
    if not l.startswith('{'): continue
    d=json.loads(l)
    for x in d.get('log') or []: print(x)
    for v in d.get('violations') or []: print('VIOL',v)
"
