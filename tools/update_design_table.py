#!/usr/bin/env python3
"""Rewrites the seeded-change table of DESIGN.md 0.7 from seeded/*/meta.json."""
import os, subprocess, sys
root = os.path.join(os.path.dirname(os.path.abspath(__file__)), "..")
t = subprocess.run([sys.executable, os.path.join(root, "tools", "seeded_table.py")], capture_output=True, text=True).stdout
p = os.path.join(root, "DESIGN.md")
s = open(p).read()
b, e = "<!-- seeded-table:begin -->", "<!-- seeded-table:end -->"
i, j = s.index(b), s.index(e)
s = s[:i + len(b)] + "\n" + t + s[j:]
open(p, "w").write(s)
print("table updated:", t.count("\n") - 2, "rows")
