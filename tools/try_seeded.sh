#!/bin/bash
# Runs registered checks against a stored seeded change: applies seeded/<id>/patch.diff to /repo, runs
# `./check <prop> <tier>` for every property given, records the outcome in seeded/<id>/meta.json and
# restores /repo (git checkout -- .) whatever happens.
# usage: tools/try_seeded.sh <id> [tier=quick] <prop> [<prop>...]      (VERIF_SEED is passed through)
set -uo pipefail
cd "$(dirname "$0")/.."
ID=$1; shift
TIER=quick
if [ "$1" = quick ] || [ "$1" = thorough ]; then TIER=$1; shift; fi
[ -z "$(git -C /repo status --porcelain --untracked-files=no)" ] || { echo "/repo working tree is not clean"; exit 2; }
trap 'git -C /repo checkout -- . ; ./build.sh >/dev/null 2>&1' EXIT
git -C /repo apply "$PWD/seeded/$ID/patch.diff" || exit 2
for P in "$@"; do
  out=$(./check "$P" "$TIER" 2>&1); rc=$?
  viol=$(echo "$out" | grep -A1 "^VIOLATION" | grep -v "^VIOLATION" | grep -v "^--" | head -3 | cut -c1-400)
  echo "== $ID $P $TIER rc=$rc"; echo "$viol"
  python3 - "$ID" "$P" "$TIER" "$rc" "${VERIF_SEED:-1}" "$viol" <<'EOF'
import json,sys
sid,prop,tier,rc,seed,viol=sys.argv[1:7]
p="seeded/%s/meta.json"%sid
m=json.load(open(p))
new={"tier":tier,"seed":seed,"exit":int(rc),"caught":rc=="1","first_violations":[l.strip() for l in viol.splitlines() if l.strip()]}
old=m.setdefault("checks",{}).get(prop)
if old and old.get("caught") and not new["caught"]:
    # keep the catching run, note the sample that missed
    old.setdefault("not_caught_with",[]).append("%s seed %s"%(tier,seed))
else:
    if old and not old.get("caught") and new["caught"]:
        new["not_caught_with"]=old.get("not_caught_with",[])+["%s seed %s"%(old.get("tier"),old.get("seed"))]
    m["checks"][prop]=new
json.dump(m,open(p,"w"),indent=1)
EOF
  # replays written while the change was applied describe a changed tree: keep one next to the change, drop the rest
  for f in $(echo "$out" | grep "^VIOLATION" | sed 's/.*replay=//'); do
    [ -f "seeded/$ID/replay-$P.json" ] || cp "$f" "seeded/$ID/replay-$P.json" 2>/dev/null
    rm -f "$f"
  done
  git checkout -q -- "evidence/$P.json" 2>/dev/null
done
