#!/usr/bin/env python3
"""Rewrites the evidence summary table of DESIGN.md 0.8 from evidence/*.json."""
import json, glob, os
root = os.path.join(os.path.dirname(os.path.abspath(__file__)), "..")
rows = []
for p in sorted(glob.glob(os.path.join(root, "evidence", "C*.json"))):
    d = json.load(open(p)); c = d["coverage"]
    faults = sum(c.get("faults_fired", {}).values())
    kinds = len(c.get("faults_fired", {}))
    rows.append("| %s | %s | %d | %d | %.0f | %d | %d | %d faults of %d kinds | %d | %.0f s | %d |" % (
        d["property_id"], d["tier"], c["runs"], c.get("single_fault_sweep_runs", 0), c["simulated_seconds"] / 3600.0,
        c["distinct_nontrivial"], c.get("distinct_schedule_signatures", 0), faults, kinds, c.get("runs_per_hour", 0), d["wall_s"], len(c.get("known_findings_seen", []) or [])))
t = "| property | tier | runs | of which sweep runs | simulated hours | distinct executions (event-log hashes) | distinct schedule signatures | faults fired | runs per hour | wall | known findings seen |\n|---|---|---|---|---|---|---|---|---|---|---|\n" + "\n".join(rows) + "\n"
p = os.path.join(root, "DESIGN.md")
s = open(p).read()
b, e = "<!-- evidence-table:begin -->", "<!-- evidence-table:end -->"
i, j = s.index(b), s.index(e)
s = s[:i + len(b)] + "\n" + t + s[j:]
open(p, "w").write(s)
print(t)
