import json,sys
from collections import Counter
c=Counter(); n=0; steps=0; wall=0; probes=Counter(); stats=Counter(); ex={}
for l in open(sys.argv[1]):
    if not l.startswith('{'):
        if l.strip() not in ('PASS',''): print(l[:3000])
        continue
    r=json.loads(l); n+=1; steps+=r['steps']; wall+=r['wall_ms']
    if r.get('fatal'): print('FATAL',r['cfg']['seed'],r['fatal'][:3000])
    for v in r.get('violations') or []:
        k=(v['property'],v['oracle']); c[k]+=1; ex.setdefault(k,(r['cfg']['seed'],v['msg'][:300]))
    for k,v in r['probes'].items(): probes[k]+=v
    for k,v in r['stats'].items(): stats[k]+=v
print(n,'runs',steps,'steps',round(wall/1000,1),'s')
for k,v in c.most_common(30): print(v,k,ex[k])
print(dict(probes)); print({k:v for k,v in stats.items() if not k.startswith('task.')})
