#!/usr/bin/env python3
"""Prints the markdown table of DESIGN.md 0.7 from seeded/*/meta.json."""
import json, glob, os
root = os.path.join(os.path.dirname(os.path.abspath(__file__)), "..")
rows = []
for p in sorted(glob.glob(os.path.join(root, "seeded", "*", "meta.json"))):
    m = json.load(open(p))
    checks = []
    for prop, c in sorted(m.get("checks", {}).items()):
        if c.get("caught"):
            v = (c.get("first_violations") or [""])[0]
            oracle = v.split(":")[0].strip() if v else ""
            extra = ""
            if c.get("seed") not in (None, "1"):
                extra = ", VERIF_SEED=%s" % c.get("seed")
            if c.get("not_caught_with"):
                extra += "; missed by " + ", ".join(c["not_caught_with"])
            checks.append("**%s %s** caught (%s%s)" % (prop, c.get("tier", "quick"), oracle, extra))
        else:
            checks.append("%s %s: not caught (exit %s)" % (prop, c.get("tier", "quick"), c.get("exit")))
    rows.append("| `%s` | %s | %s | %s |" % (m["id"], m["breaks_property"], m["summary"].replace("|", "/"), "; ".join(checks) or "not run"))
print("| seeded change | breaks | what it does | result of the registered checks |")
print("|---|---|---|---|")
print("\n".join(rows))
