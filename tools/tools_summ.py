import json,re,sys
from collections import Counter
sigs=Counter(); ex={}
n=0
for l in open(sys.argv[1]):
    if not l.startswith('{'): continue
    r=json.loads(l); n+=1
    if r.get('fatal'): print('FATAL',r['cfg']['seed'],r['fatal'][:2000])
    for x in (r.get("violations") or []):
        m=x['msg']
        fields=re.findall(r'(?:node|pool|antiaffinity)[^ ]*?\.(\w+): incremental',m)
        other=re.findall(r'(missing in incremental state|only in incremental state)',m)
        k=(x["oracle"],)
        sigs[k]+=1; ex.setdefault(k,(r['cfg']['seed'],m[:int(sys.argv[2]) if len(sys.argv)>2 else 300]))
print(n,'runs')
for k,c in sigs.most_common(): print(c,k,ex[k])
