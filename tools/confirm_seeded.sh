#!/bin/bash
# Confirms a seeded change in a scratch worktree of /repo at HEAD (never in /repo itself):
#   1. the demonstration passes on the unchanged tree
#   2. with the change the tree builds (go build ./..., go vet of the touched package's tests compile)
#   3. the demonstration fails with the change
#   4. the pinned baseline tests (stable_pass of /root/.vp/BASELINE.json) still pass with the change
# usage: tools/confirm_seeded.sh <patch.diff> <demo_test.go> <pkg dir relative to repo root> <TestName>
set -uo pipefail
PATCH=$(readlink -f "$1"); DEMO=$(readlink -f "$2"); PKG=$3; TEST=$4
WT=/tmp/wt-confirm-$$
git -C /repo worktree add --detach -q "$WT" HEAD || exit 2
trap 'git -C /repo worktree remove --force "$WT" >/dev/null 2>&1; rm -rf "$WT"' EXIT
cd "$WT"
cp "$DEMO" "$PKG/zz_seeded_demo_test.go"
echo "--- demo on unchanged tree (expect PASS)"
go test -mod=mod -vet=off -count=1 -run "^$TEST\$" "./$PKG" > /tmp/confirm.$$.a 2>&1; A=$?
tail -3 /tmp/confirm.$$.a
git apply "$PATCH" || { echo "RESULT patch does not apply"; exit 1; }
echo "--- build with change"
go build -mod=mod ./... > /tmp/confirm.$$.b 2>&1; B=$?
tail -3 /tmp/confirm.$$.b
echo "--- demo with change (expect FAIL)"
go test -mod=mod -vet=off -count=1 -run "^$TEST\$" "./$PKG" > /tmp/confirm.$$.c 2>&1; C=$?
grep -E "^(---|FAIL|ok|panic)" /tmp/confirm.$$.c | head -5
rm -f "$PKG/zz_seeded_demo_test.go"
echo "--- baseline suite with change"
go test -mod=mod -json -vet=off -count=1 -timeout 25m ./... > /tmp/confirm.$$.json 2>/dev/null
python3 - "$$" <<'EOF'
import json,sys
pid=sys.argv[1]
want=set(json.load(open('/root/.vp/BASELINE.json'))['stable_pass'])
passed=set()
for l in open('/tmp/confirm.%s.json'%pid):
    try: d=json.loads(l)
    except Exception: continue
    if d.get('Action')=='pass' and d.get('Test'):
        passed.add(d['Package']+'::'+d['Test'])
missing=sorted(want-passed)
print("baseline: %d/%d pass"%(len(want)-len(missing),len(want)))
for m in missing: print("  MISSING",m)
open('/tmp/confirm.%s.base'%pid,'w').write(str(len(missing)))
EOF
D=$(cat /tmp/confirm.$$.base)
echo "RESULT demo_unchanged_rc=$A build_rc=$B demo_changed_rc=$C baseline_missing=$D"
rm -f /tmp/confirm.$$.*
[ $A -eq 0 ] && [ $B -eq 0 ] && [ $C -ne 0 ] && [ "$D" = 0 ]
