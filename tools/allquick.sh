#!/bin/bash
# Runs every registered quick check with several VERIF_SEED values; prints one line per check/seed.
# usage: tools/allquick.sh "1 2 3" [tier]
cd "$(dirname "$0")/.."
seeds=${1:-"1 2 3"}
tier=${2:-quick}
[ -x bin/sim.test ] || ./setup.sh >/dev/null
for seed in $seeds; do
  for id in $(python3 -c "import json; print(' '.join(c['property_id'] for c in json.load(open('MANIFEST.json'))['checks']))"); do
    out=$(VERIF_SEED=$seed ./check $id $tier 2>&1); rc=$?
    echo "seed=$seed $id rc=$rc $(echo "$out" | grep -E "VIOLATION|FRAMEWORK" | head -2 | cut -c1-300) $(echo "$out" | grep -c KNOWN-FINDING) known; $(echo "$out" | tail -1 | cut -c1-90)"
    if [ $rc -ne 0 ]; then echo "$out" | grep -A1 VIOLATION | cut -c1-600; fi
  done
done
