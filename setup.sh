#!/bin/bash
# Builds the framework offline from files on disk: renders the std-lib overlay and compiles the
# simulation binary against /repo's working tree with the verif hooks enabled.
set -euo pipefail
cd "$(dirname "$0")"
overlay/render.sh
./build.sh
echo "setup ok: $(ls -la bin/sim.test | awk '{print $5}') bytes"
