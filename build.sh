#!/bin/bash
# Rebuilds the simulation binary from /repo's current working tree (hooks on: -tags verif).
set -euo pipefail
cd "$(dirname "$0")"
export GOFLAGS=-mod=mod GOPROXY=off GOSUMDB=off GOTOOLCHAIN=local GOCACHE=${GOCACHE:-/root/.cache/go-build}
overlay/render.sh
mkdir -p bin
cp /repo/go.sum go.sum.repo 2>/dev/null || true
go1.26.8 test -c -tags verif -overlay overlay/overlay.json -o bin/sim.test ./sim
